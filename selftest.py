"""Both-ways self test of the checker (thorough tier): one-line regressions of /repo applied to a
scratch copy (outside /repo and /verif, removed immediately). Each must still build and must make
exactly the named rule report a violation whose key contains the named fragment. Nothing is
executed: the scratch copy is only analysed with the same extractor and rules."""
import json
import os
import shutil
import subprocess
import sys
import tempfile
from concurrent.futures import ThreadPoolExecutor

HERE = os.path.dirname(os.path.abspath(__file__))
sys.path.insert(0, os.path.join(HERE, 'engine'))
sys.path.insert(0, HERE)

REPO = os.environ.get('VERIF_REPO', '/repo')

# (id, property, rule, config, file, old, new, expected key fragment)
M = []


def m(mid, prop, rule, file, old, new, expect, config='def'):
    M.append(dict(id=mid, prop=prop, rule=rule, file=file, old=old, new=new, expect=expect, config=config))


# ---- C10
m('cvlock-unlocked-store', 'C10', 'CV-LOCK', 'src/work_queue.rs',
  'let _queue = self\n                .inner\n                .queue\n                .lock()\n                .unwrap_or_else(std::sync::PoisonError::into_inner);\n',
  '', 'WorkStealingQueue::close:write:Inner.closed')
m('drop-no-close', 'C10', 'DROP-CLOSE', 'src/lzma2_reader_mt.rs',
  '        self.shutdown_flag.store(true, Ordering::Release);\n        self.work_queue.close();\n        // Worker threads will exit when the work queue is closed.\n        // JoinHandles will be dropped, which is fine since we set the shutdown flag,',
  '        self.shutdown_flag.store(true, Ordering::Release);', 'LZMA2ReaderMT:drop-closes-queue')
m('spawn-unbounded', 'C10', 'SPAWN-BOUND', 'src/lzip/writer_mt.rs',
  'if queue_len > 0 && active_workers == spawned_workers && spawned_workers < self.max_workers', 'if queue_len > 0 && active_workers == spawned_workers',
  'LZIPWriterMT::send_work_unit:calls:spawn_worker_thread')
m('max-workers-unclamped', 'C10', 'SPAWN-BOUND', 'src/enc/lzma2_writer_mt.rs',
  'let max_workers = num_workers.clamp(1, 256);', 'let max_workers = num_workers.max(1);', 'LZMA2WriterMT::new:writes:LZMA2WriterMT.max_workers')
m('drop-joins', 'C10', 'DROP-CLOSE', 'src/lzip/reader_mt.rs',
  '        self.work_queue.close();\n        // Worker threads will exit when the work queue is closed.\n        // JoinHandles will be dropped, which is fine since we set the shutdown flag.',
  '        self.work_queue.close();\n        for handle in self.worker_handles.drain(..) {\n            let _ = handle.join();\n        }', 'LZIPReaderMT:drop-blocks')
# ---- C09
m('worker-silent-exit', 'C09', 'WORKER-NOTIFY', 'src/lzma2_reader_mt.rs',
  '                let _ = result_tx.send((seq, Vec::new()));\n', '', 'lzma2_reader_mt::worker_thread_logic:exit-without-send')
m('worker-skip-empty', 'C09', 'WORKER-NOTIFY', 'src/enc/lzma2_writer_mt.rs',
  '        if result_tx.send((seq, result)).is_err() {', '        if result.is_empty() {\n            active_workers.fetch_sub(1, Ordering::Release);\n            continue;\n        }\n\n        if result_tx.send((seq, result)).is_err() {',
  'enc::lzma2_writer_mt::worker_thread_logic:next-steal-without-send')
m('mt-eof-swallowed', 'C09', 'ERR-SWALLOW-MT', 'src/lzma2_reader_mt.rs',
  '        self.inner.read_exact(&mut control_buf)?;\n',
  '        match self.inner.read_exact(&mut control_buf) {\n            Ok(_) => (),\n            Err(error) if error.kind() == io::ErrorKind::UnexpectedEof => {\n                return Ok(false);\n            }\n            Err(error) => return Err(error),\n        }\n',
  'LZMA2ReaderMT::read_and_dispatch_chunk:on-Err-of:read_exact')
# ---- C08 / C13
m('handout-unordered', 'C08', 'SEQ-ORDER', 'src/lzip/reader_mt.rs',
  '                        if seq == self.next_sequence_to_return {', '                        if seq >= self.next_sequence_to_return {', 'LZIPReaderMT::get_next_uncompressed_chunk:handout')
m('dispatch-no-increment', 'C08', 'SEQ-ORDER', 'src/enc/lzma2_writer_mt.rs',
  '        self.next_sequence_to_dispatch += 1;\n        Ok(())', '        Ok(())', 'LZMA2WriterMT::send_work_unit:dispatch-seq')
m('cut-at-props-reset', 'C08', 'CTRL-SETS', 'src/lzma2_reader_mt.rs',
  'let is_independent_chunk = control >= 0xE0 || control == 0x01;', 'let is_independent_chunk = control >= 0xC0 || control == 0x01;', 'MT:cut==ST:reset')
m('codec-hoisted', 'C13', 'FRESH-CODEC', 'src/lzip/writer_mt.rs', None, None, 'codec-per-unit')  # placeholder, filled below if applicable
m('cut-on-queue-len', 'C13', 'SCHED-FLOW', 'src/enc/lzma2_writer_mt.rs',
  '            if self.current_work_unit.len() >= self.chunk_size {', '            if self.current_work_unit.len() >= self.chunk_size || self.work_queue.len() == 0 {',
  'LZMA2WriterMT:cut-condition:depends-on')
m('alloc-not-zeroed', 'C13', 'DET-EFFECT', 'src/lz/aligned_memory.rs',
  'use alloc::alloc::{alloc_zeroed, dealloc, Layout};', 'use alloc::alloc::{alloc as alloc_zeroed, dealloc, Layout};', 'AlignedMemoryI32::new:raw-alloc')
# ---- C01 / C03
m('force-flag-stale', 'C01', 'FLAG-MODEL', 'src/enc/lzma2_writer.rs',
  '            self.force_independent_chunk = false;\n        }\n        self.state_reset_needed = true;', '        }\n        self.state_reset_needed = true;', 'spurious-reset')
m('reset-const-wrong', 'C01', 'FLAG-MODEL', 'src/enc/lzma2_writer.rs', '                0x80 + (3 << 5)', '                0x80 + (2 << 5)', 'missing-reset')
m('dict-reset-flag-kept', 'C01', 'FLAG-MODEL', 'src/enc/lzma2_writer.rs',
  '        self.state_reset_needed = false;\n        self.dict_reset_needed = false;', '        self.state_reset_needed = false;', '-reset:0x')
m('snapshot-after-header', 'C03', 'UNPADDED-ORDER', 'src/xz/writer.rs',
  '        self.current_block_start_pos = self.compressed_bytes_written.get();\n\n        self.write_block_header()?;\n',
  '        self.write_block_header()?;\n\n        self.current_block_start_pos = self.compressed_bytes_written.get();\n', 'snapshot-before-header')
m('footer-magic-typo', 'C03', 'SPEC-CONST', 'src/xz.rs', "const XZ_FOOTER_MAGIC: [u8; 2] = [b'Y', b'Z'];", "const XZ_FOOTER_MAGIC: [u8; 2] = [b'Z', b'Y'];", 'xz_footer')
m('lzma2-limit-raised', 'C03', 'SPEC-CONST', 'src/enc/encoder.rs', 'const LZMA2_COMPRESSED_LIMIT: u32 = (64 << 10) - 26;', 'const LZMA2_COMPRESSED_LIMIT: u32 = (64 << 10) - 2;', 'lzma2-limit:compressed')
# ---- C02
m('finish-unguarded', 'C02', 'BLOCK-TYPESTATE', 'src/xz/writer.rs',
  '        if self.block_uncompressed_size > 0 {\n            self.finish_current_block()?;\n        }', '        self.finish_current_block()?;', 'XZWriter::finish:calls:finish_current_block')
m('filter-id-swapped', 'C02', 'TABLE-INVERSE', 'src/xz/writer.rs', 'FilterType::BcjARM => 0x07,', 'FilterType::BcjARM => 0x08,', 'filter-id:BcjARM')
m('check-size-wrong', 'C02', 'TABLE-INVERSE', 'src/xz/writer.rs', 'CheckType::Crc64 => 8,', 'CheckType::Crc64 => 4,', 'check-size:Crc64')
m('ctor-swapped', 'C02', 'TABLE-INVERSE', 'src/xz/reader.rs', 'Box::new(BCJReader::new_arm(chain_reader, start_offset))', 'Box::new(BCJReader::new_arm_thumb(chain_reader, start_offset))', 'filter-ctor:BcjARM')
# ---- C04
m('data-size-unchecked', 'C04', 'GUARD-COMPARE', 'src/lzip/reader.rs',
  '        if self.data_size != trailer.data_size {\n            self.inner = Some(inner_reader);\n            return Err(error_invalid_data("LZIP data size mismatch"));\n        }\n', '', 'LZIPTrailer.data_size')
m('crc-fed-late', 'C04', 'CHECKSUM-FEED', 'src/xz/reader.rs', '                        calc.update(&buf[..bytes_read]);', '                        calc.update(&buf[..bytes_read.min(4096)]);', 'handout-is-checksummed')
# ---- C05 / C07 / C16
m('padding-partial-read', 'C05', 'IO-COUNT', 'src/xz/reader.rs',
  '        self.reader\n            .read_exact(&mut padding_buf[..padding_needed])?;\n',
  '        if self.reader.read(&mut padding_buf[..padding_needed])? != padding_needed {\n            return Err(error_invalid_data("incomplete XZ block padding"));\n        }\n', 'XZReader::consume_padding:read')
m('delta-partial-count', 'C05', 'IO-COUNT', 'src/filter/delta.rs',
  '        self.inner.write_all(&self.buffer[..data_size])?;\n        Ok(data_size)', '        self.inner.write(&self.buffer[..data_size])', 'DeltaWriter as Write>::write:write')
m('bcj-write-dropped', 'C05', 'IO-COUNT', 'src/filter/bcj.rs', 'self.inner.write_all(&self.buffer[..filtered_size])?;', 'self.inner.write(&self.buffer[..filtered_size])?;', 'BCJWriter as Write>::write:write')
m('zero-read-unguarded', 'C07', 'ZERO-READ', 'src/xz/reader.rs', '        if buf.is_empty() || self.finished {', '        if self.finished {', 'XZReader::read_blocks:zero-count-mutates-self')
m('prepare-partial-read', 'C16', 'EXACT-READ', 'src/range_dec.rs', None, None, 'prepare')
m('multistream-unguarded', 'C16', 'MULTISTREAM-GUARD', 'src/xz/reader.rs', 'if self.allow_multiple_streams && self.try_start_next_stream()? {', 'if self.try_start_next_stream()? {', 'after-footer:try_start_next_stream')
# ---- C06
m('index-prealloc', 'C06', 'ALLOC-TAINT', 'src/xz/reader.rs', '        let mut records = Vec::new();', '        let mut records = Vec::with_capacity(number_of_records as usize);', 'Index::parse:with_capacity')
m('dict-check-removed', 'C06', 'INT-OVF', 'src/lzma_reader.rs',
  '    if dict_size > DICT_SIZE_MAX {\n        return Err(error_invalid_input("dict size too large"));\n    }\n    let dict_size = dict_size.max(4096);', '    let dict_size = dict_size.max(4096);', 'lzma_reader::get_dict_size:arith-overflow')
m('member-size-unchecked', 'C06', 'ALLOC-TAINT', 'src/lzip/reader_mt.rs', 'if member_size == 0 || member_size > current_pos {', 'if member_size == 0 {', 'LZIPReaderMT::dispatch_next_member:from_elem')
m('read-recursive', 'C06', 'NO-RECURSION', 'src/lzip/reader.rs', None, None, 'cycle')
# ---- C12
m('magic-test-inverted', 'C12', 'BYTE-CONTRA', 'src/xz/reader.rs', 'if byte != XZ_MAGIC[0] {', 'if byte == XZ_MAGIC[0] {', 'magic[0]-vs-earlier-tests')
m('padding-check-dropped', 'C12', 'STREAM-RESET', 'src/xz/reader.rs',
  '            if padding_bytes % 4 != 0 {\n                return Err(error_invalid_data("stream padding size not multiple of 4"));\n            }\n', '', 'padding-multiple-of-4')
# ---- C14 / C15
m('scalar-saturating', 'C14', 'NORM-NONNEG', 'src/lz/lz_encoder.rs', '*p = (*p).max(norm_offset) - norm_offset', '*p = p.saturating_sub(norm_offset)', 'normalize_scalar:scalar-store')
m('unclamped-u16-read', 'C15', 'UNSAFE-GUARD', 'src/lz/lz_encoder.rs', 'let clamped0 = read_pos.min(self.buf_limit_u16);', 'let clamped0 = read_pos;', 'get_match_len_fast_reject:read_unaligned')
m('unchecked-extension', 'C15', 'UNSAFE-GUARD', 'src/lz/mod.rs', 'let extension_limit = logical_extension.min(physical_extension);', 'let extension_limit = logical_extension.max(physical_extension.min(1));', 'extend_match:get_unchecked')
m('unsafe-elsewhere', 'C15', 'UNSAFE-CONFINE', 'src/lz/lz_decoder.rs', None, None, 'unsafe')
m('buf-limit-off', 'C15', 'GUARD-FIELD-WRITERS', 'src/lz/lz_encoder.rs', 'let buf_limit_u16 = buf_size.checked_sub(size_of::<u16>()).unwrap();', 'let buf_limit_u16 = buf_size.checked_sub(1).unwrap();', 'init:LZEncoderData.buf_limit_u16')
# ---- C17 / C18 / C19
m('kib-mix', 'C17', 'KIB-UNITS', 'src/lz/lz_encoder.rs', '        ) / 1024\n            + mf.get_memory_usage(dict_size)', '        ) + mf.get_memory_usage(dict_size)', 'LZEncoder::get_memory_usage:unit-mismatch')
m('limit-after-construct', 'C17', 'LIMIT-BEFORE-ALLOC', 'src/lzma_reader.rs', None, None, 'limit-checked-before-allocation')
m('xz-block-unclamped', 'C18', 'UNIT-CLAMP', 'src/xz/writer.rs', 'let written = self.writer.write(&remaining[..to_write])?;', 'let written = self.writer.write(remaining)?;', 'XZWriter:unit-slice-clamped')
m('lzip-member-unclamped', 'C18', 'UNIT-CLAMP', 'src/lzip/writer.rs', 'let bytes_written = lzma_writer.write(&remaining[..bytes_to_write])?;', 'let bytes_written = lzma_writer.write(remaining)?;', 'LZIPWriter:unit-slice-clamped')
m('expected-size-unchecked', 'C18', 'EXPECTED-SIZE', 'src/enc/lzma_writer.rs',
  '            if exp < self.current_uncompressed_size + buf.len() as u64 {', '            if exp < self.current_uncompressed_size {', 'declared-size-checked-before-encoding')
m('lzip-dict-unclamped', 'C19', 'OPT-TAINT', 'src/lzip/writer.rs', None, None, 'encode_dict_size')


# ---- C01 codec mirror (encoder side: decoder is exercised by the xz_reference fixtures)
m('enc-rep1-rep2-swapped', 'C01', 'CODEC-MIRROR', 'src/enc/encoder.rs',
  '                rc.encode_bit(&mut self.coder.is_rep1, state, 1)?;\n                let state = self.coder.state.get() as usize;\n                rc.encode_bit(&mut self.coder.is_rep2, state, rep - 2)?;',
  '                rc.encode_bit(&mut self.coder.is_rep2, state, 1)?;\n                let state = self.coder.state.get() as usize;\n                rc.encode_bit(&mut self.coder.is_rep1, state, rep - 2)?;', 'rep-match:rep')
m('enc-rep3-rotation', 'C01', 'CODEC-MIRROR', 'src/enc/encoder.rs',
  '                if rep == 3 {\n                    self.coder.reps[3] = self.coder.reps[2];\n                }\n', '', 'rep-match:rep3')
m('enc-longrep-state', 'C01', 'CODEC-MIRROR', 'src/enc/encoder.rs',
  '            self.rep_len_encoder.encode(len, pos_state, rc)?;\n            self.coder.state.update_long_rep();', '            self.rep_len_encoder.encode(len, pos_state, rc)?;\n            self.coder.state.update_match();', 'rep-match:rep')
m('enc-rep-uses-match-len', 'C01', 'CODEC-MIRROR', 'src/enc/encoder.rs',
  '            self.rep_len_encoder.encode(len, pos_state, rc)?;', '            self.match_len_encoder.encode(len, pos_state, rc)?;', 'length-coders-distinct')
m('enc-rep0long-polarity', 'C01', 'CODEC-MIRROR', 'src/enc/encoder.rs', 'if len == 1 { 0 } else { 1 },', 'if len == 1 { 1 } else { 0 },', 'rep-match:')
m('enc-endmarker-bit', 'C01', 'CODEC-MIRROR', 'src/enc/encoder.rs',
  '        rc.encode_bit(&mut self.coder.is_rep, self.coder.state.get() as usize, 0)?;\n        self.encode_match(u32::MAX', '        rc.encode_bit(&mut self.coder.is_rep, self.coder.state.get() as usize, 1)?;\n        self.encode_match(u32::MAX', 'top:encode_lzma1_end_marker')
m('enc-dist-special-threshold', 'C01', 'CODEC-MIRROR', 'src/enc/encoder.rs', 'if dist_slot < DIST_MODEL_END as u32 {', 'if dist_slot <= DIST_MODEL_END as u32 {', 'match:slot')
m('enc-len-mid-table', 'C01', 'CODEC-MIRROR', 'src/enc/encoder.rs', 'rc.encode_bit_tree(&mut self.coder.mid[pos_state as usize], len as _)?;', 'rc.encode_bit_tree(&mut self.coder.low[pos_state as usize], len as _)?;', 'length:choice=10')
m('enc-match-reps-order', 'C01', 'CODEC-MIRROR', 'src/enc/encoder.rs',
  '        self.coder.reps[3] = self.coder.reps[2];\n        self.coder.reps[2] = self.coder.reps[1];\n        self.coder.reps[1] = self.coder.reps[0];\n        self.coder.reps[0] = dist as i32;',
  '        self.coder.reps[2] = self.coder.reps[1];\n        self.coder.reps[3] = self.coder.reps[2];\n        self.coder.reps[1] = self.coder.reps[0];\n        self.coder.reps[0] = dist as i32;', 'match:slot')
m('enc-literal-context', 'C01', 'CODEC-MIRROR', 'src/enc/encoder.rs', '        if coder.state.is_literal() {\n            let mut subencoder_index;', '        if !coder.state.is_literal() {\n            let mut subencoder_index;', 'literal:')

m('optalloc-mt-unclamped', 'C19', 'OPT-ALLOC', 'src/enc/lzma2_writer_mt.rs',
  'Vec::with_capacity(chunk_size.min(1024 * 1024))', 'Vec::with_capacity(chunk_size)', 'LZMA2WriterMT::new:with_capacity')
m('optalloc-lzip-unclamped', 'C19', 'OPT-ALLOC', 'src/lzip/writer_mt.rs',
  'Vec::with_capacity((member_size as usize).min(1024 * 1024))', 'Vec::with_capacity(member_size as usize)', 'LZIPWriterMT::new:with_capacity')

m('lzma-reader-no-latch', 'C06', 'READ-ERR-LATCH', 'src/lzma_reader.rs', '        self.failed = result.is_err();\n', '', '<LZMAReader as Read>::read:error-is-sticky')
m('lzip-reader-no-latch', 'C06', 'READ-ERR-LATCH', 'src/lzip/reader.rs', '        self.failed = result.is_err();\n', '', '<LZIPReader as Read>::read:error-is-sticky')
m('bcj-latches-interrupted', 'C05', 'INTERRUPT-LATCH', 'src/filter/bcj.rs',
  '                    #[cfg(feature = "std")]\n                    Err(e) if e.kind() == std::io::ErrorKind::Interrupted => {}\n', '', '<BCJReader as Read>::read:err-arm-of-inner-read')
m('xz-probe-no-retry', 'C05', 'INTERRUPT-RETRY', 'src/xz/reader.rs',
  '                #[cfg(feature = "std")]\n                Err(error) if error.kind() == std::io::ErrorKind::Interrupted => {}\n', '', 'XZReader::read_byte:read-into-own-buffer')
m('xz-trailing-padding-unchecked', 'C12', 'STREAM-RESET', 'src/xz/reader.rs',
  '                if padding_bytes % 4 != 0 {\n                    return Err(error_invalid_data("stream padding size not multiple of 4"));\n                }\n                return Ok(false);',
  '                return Ok(false);', 'trailing-padding-multiple-of-4')
m('mt-sink-error-not-sticky', 'C09', 'SINK-ERR-STICKY', 'src/enc/lzma2_writer_mt.rs', '            self.state = State::Error;\n            let error = io::Error::new(error.kind(), error.to_string());', '            let error = io::Error::new(error.kind(), error.to_string());', 'LZMA2WriterMT::write_to_sink:sink-write_all')
m('lzipmt-scan-break', 'C04', 'SCAN-TO-ZERO', 'src/lzip/reader_mt.rs',
  '                if current_pos < TRAILER_SIZE as u64 {\n                    // Too short for a member: this is not the start of the file\'s first member.\n                    continue \'search;',
  '                if current_pos < TRAILER_SIZE as u64 {\n                    // Too short for a member: this is not the start of the file\'s first member.\n                    break;', 'LZIPReaderMT::scan_members:scan-of-current_pos')
m('lzma2-window-empty', 'C06', 'WINDOW-ALIGN', 'src/lzma2_reader.rs', '(dict_size.max(4096) as u64 + 15) & !15', '(dict_size as u64 + 15) & !15', 'LZMA2Reader::new:window-not-empty')
m('preset-window-shrunk', 'C01', 'WINDOW-PRESET', 'src/lzma_reader.rs', 'if !has_preset && uncomp_size', 'if uncomp_size', 'LZMAReader::construct2:window-keeps-preset')
m('asm-dispatch-unguarded', 'C14', 'ASM-DISPATCH', 'src/range_dec.rs',
  '            if self.inner.is_buffer()\n                && count > 0\n                && self.inner.buf().len().saturating_sub(self.inner.pos())\n                    >= count as usize / 8 + 2\n            {\n                return self.decode_direct_bits_x86_64(count);',
  '            if self.inner.is_buffer() && count > 0 {\n                return self.decode_direct_bits_x86_64(count);', 'decode_direct_bits:dispatch')
m('hash3-not-estimated', 'C17', 'ESTIMATE-TWIN', 'src/lz/hash234.rs', '(HASH2_SIZE + HASH3_SIZE + Self::get_hash4_size(dict_size))', '(HASH2_MASK + HASH2_SIZE + Self::get_hash4_size(dict_size))', 'Hash234::get_mem_usage~Hash234::new')

m('xz-writer-alignment-table-differs', 'C19', 'VALIDATE-PARITY', 'src/xz/writer.rs', 'FilterType::BcjIA64 => filter.property % 16 == 0,', 'FilterType::BcjIA64 => filter.property % 4 == 0,', 'XZWriter:bcj-offset-alignment-table')
m('xz-writer-delta-range-dropped', 'C19', 'VALIDATE-PARITY', 'src/xz/writer.rs', 'FilterType::Delta => (1..=256).contains(&filter.property),', 'FilterType::Delta => true,', 'XZWriter:delta-distance-range')
m('bcj-checked-position-add', 'C06', 'POS-WRAP', 'src/filter/bcj/x86.rs', 'dest = src.wrapping_add((self.pos + i) as i32);', 'dest = src + (self.pos + i) as i32;', 'BCJFilter::x86_code:position-arithmetic-wraps')
m('lzma2-props-unchecked', 'C06', 'BOUNDS', 'src/lzma2_reader.rs', None, None, 'index<16')

m('x86-decoder-adds', 'C11', 'FILTER-INVERSE', 'src/filter/bcj/x86.rs', 'dest = src.wrapping_sub((self.pos + i) as i32);', 'dest = src.wrapping_add(((self.pos + i) as i32).wrapping_neg());', 'BCJFilter::x86_code:dest')
m('ppc-encoder-other-operand', 'C11', 'FILTER-INVERSE', 'src/filter/bcj/ppc.rs', '                    src.wrapping_add(p)\n', '                    src.wrapping_add(p & !3)\n', 'BCJFilter::ppc_code:dest')
m('delta-encode-stores-filtered', 'C11', 'FILTER-INVERSE', 'src/filter/delta.rs', '            self.history[pos & DIS_MASK] = original;', '            self.history[pos & DIS_MASK] = *item;', 'Delta:encode~decode')
m('bcj-reader-encodes', 'C11', 'FILTER-INVERSE', 'src/filter/bcj.rs', 'Self::new(inner, BCJFilter::new_sparc(start_pos, false))', 'Self::new(inner, BCJFilter::new_sparc(start_pos, true))', 'BCJ:new_sparc')

m('empty-preset-waives-reset', 'C19', 'PRESET-TWIN', 'src/enc/lzma2_writer.rs', 'if let Some(preset_dict) = lzma_options.preset_dict.as_ref().filter(|d| !d.is_empty()) {', 'if let Some(preset_dict) = &lzma_options.preset_dict {', 'LZMA2Writer::new:reset-waived-only-for-nonempty-preset')

# round 6
m('slot-not-emptied-after-end-marker', 'C05', 'ERR-SLOT', 'src/lzma_reader.rs',
  """                    self.rc.normalize();
                    if let Some(e) = self.rc.take_read_error() {
                        return Err(e);
                    }
""", """                    self.rc.normalize();
""", 'LZMAReader::read_decode:slot-emptied-before-data-is-released')
m('slot-taken-and-dropped', 'C05', 'ERR-SLOT', 'src/lzma_reader.rs',
  """            if let Some(e) = self.rc.take_read_error() {
                return Err(e);
            }

            match result {""", """            let _ = self.rc.take_read_error();

            match result {""", 'LZMAReader::read_decode:slot-emptied-before-data-is-released')
m('read-u8-drops-error-again', 'C05', 'ERR-SWALLOW', 'src/range_dec.rs',
  """            Err(e) => {
                if error.is_none() {
                    *error = Some(e);
                }
                0
            }""", """            Err(_) => 0,""", 'read_u8:on-Err-of:read_exact')
m('lzip-short-magic-is-trailing-data', 'C05', 'MAGIC-PREFIX', 'src/lzip.rs',
  """        if filled < magic.len() && magic[..filled] == LZIP_MAGIC[..filled] {
            // The data ends inside what can only be the magic of another member.
            return Err(error_eof());
        }
""", "", 'LZIPHeader::parse_next:NoMagic-only-after-comparing-the-bytes')
m('xzreader-no-latch', 'C05', 'READ-ERR-LATCH', 'src/xz/reader.rs',
  """        let result = self.read_blocks(buf);
        self.failed = result.is_err();
        result""", """        self.read_blocks(buf)""", '<XZReader as Read>::read:error-is-sticky')
m('bcj2-exhausted-input-is-eof', 'C05', 'OWED-OUTPUT', 'src/filter/bcj2.rs',
  """                if self.uncompressed_size != 0 && result_size == 0 {
                    return Err(error_eof());
                }
""", "", '<BCJ2Reader as Read>::read:input-end-with-output-owed-is-not-Ok')
m('lzipmt-scan-from-raw-end', 'C08', 'TRAILING-SKIP', 'src/lzip/reader_mt.rs',
  """            let mut current_pos =
                match Self::find_last_member_end(&mut reader, file_size, search_end) {
                    Ok(end) => end,
                    Err(error) => {
                        self.inner = Some(reader);
                        return Err(error);
                    }
                };
""", """            let mut current_pos = search_end;
""", 'LZIPReaderMT::scan_members:trailing-data-skipped-like-the-single-threaded-reader')
m('lzipmt-stale-members-kept', 'C04', 'SCAN-TO-ZERO', 'src/lzip/reader_mt.rs', "            self.members.clear();\n\n            while current_pos > 0 {", "            while current_pos > 0 {", 'LZIPReaderMT::scan_members:scan-of-current_pos')
m('ppc-scan-skips-last-slot', 'C11', 'SCAN-COVERAGE', 'src/filter/bcj/ppc.rs', '        while i <= end {', '        while i < end {', 'BCJFilter::ppc_code:last-slot-scanned')
m('deltawriter-flush-shortcut', 'C05', 'FLUSH-FORWARD', 'src/filter/delta.rs', """    fn flush(&mut self) -> crate::Result<()> {
        self.inner.flush()""", """    fn flush(&mut self) -> crate::Result<()> {
        if self.buffer.is_empty() {
            return Ok(());
        }
        self.inner.flush()""", '<DeltaWriter as Write>::flush:sink-flushed-on-every-Ok-path')

# ---- SIZE-FIELD-TWIN
m('lzma2-compressed-size-bytes-swapped', 'C01', 'SIZE-FIELD-TWIN', 'src/enc/lzma2_writer.rs',
  """        chunk_header[3] = ((compressed_size - 1) >> 8) as u8;
        chunk_header[4] = (compressed_size - 1) as u8;""", """        chunk_header[4] = ((compressed_size - 1) >> 8) as u8;
        chunk_header[3] = (compressed_size - 1) as u8;""", 'write_lzma:compressed_size:big-endian-minus-one')
m('lzma2-control-high-bits-shift', 'C01', 'SIZE-FIELD-TWIN', 'src/enc/lzma2_writer.rs',
  'control |= (uncompressed_size - 1) >> 16;', 'control |= (uncompressed_size - 1) >> 17;', 'write_lzma:uncompressed_size:high-bits-in-control')
m('lzma2-uncompressed-chunk-size-not-minus-one', 'C01', 'SIZE-FIELD-TWIN', 'src/enc/lzma2_writer.rs',
  'chunk_header[1] = ((chunk_size - 1) >> 8) as u8;', 'chunk_header[1] = (chunk_size >> 8) as u8;', 'write_uncompressed:header[1]:not-a-size-byte')
m('lzma2mt-cutter-wrong-offset', 'C08', 'SIZE-FIELD-TWIN', 'src/lzma2_reader_mt.rs',
  'u16::from_be_bytes([header_buf[2], header_buf[3]]) as usize + 1', 'u16::from_be_bytes([header_buf[0], header_buf[1]]) as usize + 1', 'read_and_dispatch_chunk:compressed-size-offset')
m('lzma2mt-cutter-no-plus-one', 'C08', 'SIZE-FIELD-TWIN', 'src/lzma2_reader_mt.rs',
  'u16::from_be_bytes(size_buf) as usize + 1', 'u16::from_be_bytes(size_buf) as usize', 'read_and_dispatch_chunk:payload-length-plus-one')
m('lzma2-reader-control-mask', 'C01', 'SIZE-FIELD-TWIN', 'src/lzma2_reader.rs',
  '((control & 0x1F) as usize) << 16', '((control & 0x0F) as usize) << 16', 'decode_chunk_header:control-bits')

m('lzma2reader-two-decoders', 'C17', 'SINGLE-DECODER', 'src/lzma2_reader.rs',
  """        self.lzma = None;
        self.lzma = Some(LZMADecoder::new(""", """        self.lzma = Some(LZMADecoder::new(""", 'LZMA2Reader::decode_props:old-decoder-released-first')
# ---- round 12
m('lzdecoder-dist-equal-full', 'C06', 'DIST-BELOW-FULL', 'src/lz/lz_decoder.rs', 'if dist >= self.full {', 'if dist > self.full {', 'LZDecoder::repeat:distance-strictly-below-full')
m('rc-encoder-norm-off-by-one', 'C01', 'RC-NORM-TWIN', 'src/enc/range_enc.rs', """        if self.range & TOP_MASK == 0 {
            self.range <<= SHIFT_BITS;
            self.shift_low()?;
        }
        Ok(())
    }

    pub(crate) fn encode_bit_tree""", """        if self.range <= TOP_MASK >> 9 {
            self.range <<= SHIFT_BITS;
            self.shift_low()?;
        }
        Ok(())
    }

    pub(crate) fn encode_bit_tree""", 'RangeEncoder::encode_bit:normalises-like')
m('decode-without-final-normalize', 'C16', 'NORMALIZE-AT-END', 'src/decoder.rs', "        rc.normalize();\n        Ok(())", "        Ok(())", 'LZMADecoder::decode:Ok-only-after-normalize')

m('xzreader-declared-compressed-size-unchecked', 'C04', 'GUARD-COMPARE', 'src/xz/reader.rs',
  """                    if declared_compressed.is_some_and(|size| size != compressed)
                        || declared_uncompressed.is_some_and(|size| size != self.block_uncompressed_read)""",
  """                    let _ = (declared_compressed, compressed);
                    if declared_uncompressed.is_some_and(|size| size != self.block_uncompressed_read)""", 'BlockHeader.compressed_size')

M = [x for x in M if x['old'] is not None]


def _seed_mutants():
    """Confirmed seeded changes (written by independent sub-agents, see seeded/*/meta.json) double as mutants:
    each (seed, property, rule) recorded by tools/seed_matrix.py must keep being reported."""
    sd = os.path.join(HERE, 'seeded')
    if not os.path.isdir(sd):
        return
    for sid in sorted(os.listdir(sd)):
        mp = os.path.join(sd, sid, 'meta.json')
        if not os.path.exists(mp):
            continue
        seen = set()
        for rep in json.load(open(mp)).get('static_check', {}).get('reports', []):
            if rep['key'] in ('FLOOR', 'RULE-ERROR') or rep['key'].startswith('ANCHOR-MISSING'):
                continue
            if (rep['property'], rep['rule']) in seen:
                continue
            seen.add((rep['property'], rep['rule']))
            M.append(dict(id='seed-%s' % sid, prop=rep['property'], rule=rep['rule'], file=None, old='', new='',
                          patch=os.path.join(sd, sid, 'patch_rebased.diff' if os.path.exists(os.path.join(sd, sid, 'patch_rebased.diff')) else 'patch.diff'),
                          expect=rep['key'], config='def'))


_seed_mutants()


def _copy_repo(dst):
    for name in ('src', 'Cargo.toml', 'Cargo.lock', 'benches'):
        s = os.path.join(REPO, name)
        d = os.path.join(dst, name)
        if os.path.isdir(s):
            shutil.copytree(s, d)
        elif os.path.exists(s):
            shutil.copy2(s, d)


def run_mutant(mu):
    from lzlint import framework, extract
    tmp = tempfile.mkdtemp(prefix='lzlint-mut-')
    try:
        _copy_repo(tmp)
        if mu.get('patch'):
            r = subprocess.run(['git', 'apply', '--include=src/*', mu['patch']], cwd=tmp, capture_output=True, text=True)
            if r.returncode != 0:
                return (mu, 'inapplicable', 'the seeded patch no longer applies: ' + r.stderr[-200:])
        else:
            p = os.path.join(tmp, mu['file'])
            src = open(p).read()
            if mu['old'] not in src:
                return (mu, 'inapplicable', 'the code fragment this mutant edits is no longer present')
            open(p, 'w').write(src.replace(mu['old'], mu['new'], 1))
        cache = tempfile.mkdtemp(prefix='lzlint-mutcache-')
        try:
            env = dict(os.environ, VERIF_REPO=tmp, VERIF_CACHE=cache)
            r = subprocess.run([sys.executable, os.path.join(HERE, 'check'), mu['prop'], '--rules', mu['rule'], '--dump',
                                '--tier', 'quick'], env=env, capture_output=True, text=True, timeout=900)
        finally:
            shutil.rmtree(cache, ignore_errors=True)
        out = r.stdout
        if 'ANALYSIS-ERROR' in out:
            return (mu, 'nobuild', out[-400:])
        hits = [l for l in out.splitlines() if l.strip().startswith('violation') and mu['expect'] in l]
        if hits:
            return (mu, 'caught', hits[0].strip()[:200])
        return (mu, 'missed', out[-600:])
    finally:
        shutil.rmtree(tmp, ignore_errors=True)


def run_selftest(prop=None, verbose=True):
    sel = [x for x in M if prop is None or x['prop'] == prop]
    if not sel:
        return 0
    with ThreadPoolExecutor(max_workers=8) as ex:
        res = list(ex.map(run_mutant, sel))
    bad = 0
    summary = []
    for mu, status, detail in res:
        summary.append({'id': mu['id'], 'rule': mu['rule'], 'status': status})
        if verbose:
            print('  selftest %-24s %-20s %s' % (mu['id'], mu['rule'], status))
        if status == 'missed':
            bad += 1
            print('    MISSED: mutant %s should make %s report %s\n%s' % (mu['id'], mu['rule'], mu['expect'], detail))
    caught = len([1 for _, s, _ in res if s == 'caught'])
    if verbose:
        print('  selftest: %d/%d mutants caught, %d inapplicable, %d did not build' % (
            caught, len(res), len([1 for _, s, _ in res if s == 'inapplicable']), len([1 for _, s, _ in res if s == 'nobuild'])))
    # record in the evidence file of the property
    if prop:
        evp = os.path.join(HERE, 'evidence', '%s.json' % prop)
        if os.path.exists(evp):
            ev = json.load(open(evp))
            ev['coverage']['selftest_mutants'] = summary
            json.dump(ev, open(evp, 'w'), indent=1)
    if bad:
        # a missed mutant is a weakness of the checker, not a violation of the property on this tree:
        # it is reported and recorded in the evidence, the verdict about /repo is unchanged
        print('SELFTEST: %d mutant(s) missed for %s (checker weaker than designed; see evidence.selftest_mutants)' % (bad, prop or 'ALL'))
    return 0


if __name__ == '__main__':
    sys.exit(run_selftest(sys.argv[1] if len(sys.argv) > 1 else None))
