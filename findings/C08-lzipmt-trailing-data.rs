// C08 (quantifier: "... empty units, trailing bytes"): LZIPReaderMT rejected every file that has bytes after
// its last member, LZIPReader accepts them as trailing data (the LZIP format allows it). scan_members
// read the last 20 bytes of the *file* as a member trailer, so any trailing data made the constructor fail
// with "Invalid LZIP member size in trailer".
// Put into tests/, run `cargo test --test C08-lzipmt-trailing-data`: fails before the fix
// ("fix: LZIPReaderMT must skip trailing data like LZIPReader"), passes after it.
use std::io::{Cursor, Read, Write};

use lzma_rust2::*;

fn member(data: &[u8]) -> Vec<u8> {
    let mut o = LZIPOptions::with_preset(0);
    o.lzma_options.dict_size = 1 << 16;
    let mut w = LZIPWriter::new(Vec::new(), o);
    w.write_all(data).unwrap();
    w.finish().unwrap()
}

#[test]
fn trailing_data_is_ignored_by_both_readers() {
    let mut base = member(b"hello world");
    base.extend_from_slice(&member(b"second"));

    let tails: Vec<Vec<u8>> = vec![
        b"x".to_vec(),
        b"this is some trailing text after the last member".to_vec(),
        vec![0u8; 64],
        vec![0xFFu8; 19],
        (0..100_000u32).map(|i| (i * 31 % 251) as u8).collect(),
    ];
    for tail in tails {
        let mut file = base.clone();
        file.extend_from_slice(&tail);

        let mut st = Vec::new();
        LZIPReader::new(&file[..]).unwrap().read_to_end(&mut st).unwrap();
        assert_eq!(st, b"hello worldsecond");

        for workers in [1, 2, 4] {
            let mut mt = Vec::new();
            let res = LZIPReaderMT::new(Cursor::new(file.clone()), workers).and_then(|mut r| {
                assert_eq!(r.member_count(), 2);
                r.read_to_end(&mut mt)
            });
            assert!(
                res.is_ok(),
                "{} trailing bytes, {workers} workers: single-threaded reader returns the data, multi-threaded reader fails: {:?}",
                tail.len(),
                res
            );
            assert_eq!(mt, st);
        }
    }

    // no member at all is still an error
    assert!(LZIPReaderMT::new(Cursor::new(vec![0u8; 200]), 2).is_err());
}
