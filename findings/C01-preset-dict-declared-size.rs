use std::io::{Read, Write};
use lzma_rust2::{LZMAOptions, LZMAReader, LZMAWriter};

#[test]
fn preset_dict_with_known_small_size() {
    let mut preset = Vec::new();
    let mut x = 7u32;
    for _ in 0..60000 { x = x.wrapping_mul(1103515245).wrapping_add(12345); preset.push((x >> 16) as u8); }
    let data = preset[..200].to_vec(); // only reachable through a match ~60000 bytes back into the preset dictionary
    let mut o = LZMAOptions::with_preset(6);
    o.dict_size = 1 << 16;
    o.preset_dict = Some(preset.clone().into());
    let mut w = LZMAWriter::new_no_header(Vec::new(), &o, false).unwrap();
    w.write_all(&data).unwrap();
    let enc = w.finish().unwrap();
    assert!(enc.len() < 100, "expected the data to be coded as a match into the preset dictionary, got {} bytes", enc.len());
    let mut dec = Vec::new();
    let mut r = LZMAReader::new(&enc[..], data.len() as u64, o.lc, o.lp, o.pb, o.dict_size, Some(&preset)).unwrap();
    r.read_to_end(&mut dec).unwrap();
    assert_eq!(dec, data);
}
