//! Reproducers for C18-related behaviour of the PRISTINE tree. Every test asserts what the property
//! (or its obvious reading) demands, so every test FAILS on the pristine tree.
//! Copy to tests/pristine_repro.rs and run `cargo test --offline --test pristine_repro`.

use std::{
    io::{Read, Write},
    num::NonZeroU64,
};

use lzma_rust2::*;

fn text(len: usize, seed: u64) -> Vec<u8> {
    let mut state = seed | 1;
    let mut out = Vec::with_capacity(len + 32);
    while out.len() < len {
        state ^= state << 13;
        state ^= state >> 7;
        state ^= state << 17;
        let word = (state % 23) as usize + 3;
        for i in 0..word {
            out.push(b'a' + ((state >> (i % 8)) % 7) as u8);
        }
        out.push(b' ');
    }
    out.truncate(len);
    out
}

fn crc32(data: &[u8]) -> u32 {
    let mut crc = 0xFFFF_FFFFu32;
    for &b in data {
        crc ^= b as u32;
        for _ in 0..8 {
            crc = if crc & 1 != 0 { (crc >> 1) ^ 0xEDB8_8320 } else { crc >> 1 };
        }
    }
    !crc
}

/// Uncompressed sizes of the independent units (dictionary reset to dictionary reset).
fn lzma2_units(stream: &[u8]) -> Vec<u64> {
    let mut units: Vec<u64> = Vec::new();
    let mut pos = 0;
    loop {
        let control = stream[pos];
        if control == 0 {
            break;
        }
        let (unc, hdr, comp) = if control >= 0x80 {
            let unc = (((control & 0x1F) as u64) << 16)
                + ((stream[pos + 1] as u64) << 8)
                + stream[pos + 2] as u64
                + 1;
            let comp = ((stream[pos + 3] as usize) << 8) + stream[pos + 4] as usize + 1;
            (unc, if control >= 0xC0 { 6 } else { 5 }, comp)
        } else {
            let unc = ((stream[pos + 1] as u64) << 8) + stream[pos + 2] as u64 + 1;
            (unc, 3, unc as usize)
        };
        if control == 1 || control >= 0xE0 {
            units.push(0);
        }
        *units.last_mut().unwrap() += unc;
        pos += hdr + comp;
    }
    units
}

/// (data size, member size) from the trailers, walking back from the end of the file.
fn lzip_members(file: &[u8]) -> Vec<(u64, u64)> {
    let mut members = Vec::new();
    let mut end = file.len();
    while end > 0 {
        let data_size = u64::from_le_bytes(file[end - 16..end - 8].try_into().unwrap());
        let member_size = u64::from_le_bytes(file[end - 8..end].try_into().unwrap());
        members.push((data_size, member_size));
        end -= member_size as usize;
        assert_eq!(&file[end..end + 4], b"LZIP");
    }
    members.reverse();
    members
}

fn xz_single_block(data: &[u8]) -> Vec<u8> {
    let mut options = XZOptions::with_preset(0);
    options.set_check_sum_type(CheckType::Crc32);
    let mut writer = XZWriter::new(Vec::new(), options).unwrap();
    writer.write_all(data).unwrap();
    let file = writer.finish().unwrap();
    // stream header (12) + block header: size byte 2 => 12 bytes, flags 0, filter 0x21, 1 prop.
    assert_eq!(&file[12..16], &[0x02, 0x00, 0x21, 0x01]);
    file
}

/// P1a: XZReader parses the block header's "uncompressed size" field and never looks at it again.
/// `xz -t` on the same file: "Compressed data is corrupt".
#[test]
fn p1a_xz_reader_must_report_block_header_uncompressed_size_mismatch() {
    let data = text(1000, 3);
    let mut file = xz_single_block(&data);
    let prop = file[16];
    // Same header length (12): flags 0x80 (uncompressed size present), size 5, filter, padding.
    let header = [0x02u8, 0x80, 0x05, 0x21, 0x01, prop, 0, 0];
    file[12..20].copy_from_slice(&header);
    file[20..24].copy_from_slice(&crc32(&header).to_le_bytes());

    let mut out = Vec::new();
    let result = XZReader::new(file.as_slice(), false).read_to_end(&mut out);
    assert!(
        result.is_err(),
        "block header declares 5 bytes, reader returned {} bytes without an error",
        out.len()
    );
}

/// P1b: the index record's uncompressed size (and unpadded size) is never compared with the block.
/// `xz -t` on the same file: "Compressed data is corrupt".
#[test]
fn p1b_xz_reader_must_report_index_uncompressed_size_mismatch() {
    let data = text(1000, 3);
    let mut file = xz_single_block(&data);
    let n = file.len();
    let backward = u32::from_le_bytes(file[n - 8..n - 4].try_into().unwrap()) as usize;
    let index_start = n - 12 - (backward + 1) * 4;
    let index = &mut file[index_start..n - 12];
    assert_eq!(&index[..2], &[0x00, 0x01]);
    // 1000 = varint E8 07; make it 1001.
    let at = index.windows(2).position(|w| w == [0xE8, 0x07]).unwrap();
    index[at] = 0xE9;
    let len = index.len();
    let crc = crc32(&index[..len - 4]);
    index[len - 4..].copy_from_slice(&crc.to_le_bytes());

    let mut out = Vec::new();
    let result = XZReader::new(file.as_slice(), false).read_to_end(&mut out);
    assert!(
        result.is_err(),
        "index declares 1001 bytes, reader returned {} bytes without an error",
        out.len()
    );
}

/// P2: flush() of the MT writers dispatches the partial unit, so a unit in the middle of the
/// stream is shorter than the configured size ("exactly the configured size except the last").
#[test]
fn p2_mt_writers_cut_exact_units_even_with_a_flush_between_writes() {
    const UNIT: usize = 64 * 1024;
    let data = text(300_000, 7);

    let mut options = LZMA2Options::with_preset(0);
    options.lzma_options.dict_size = UNIT as u32;
    options.set_chunk_size(NonZeroU64::new(UNIT as u64));
    let mut writer = LZMA2WriterMT::new(Vec::new(), options, 2).unwrap();
    writer.write_all(&data[..100_000]).unwrap();
    writer.flush().unwrap();
    writer.write_all(&data[100_000..]).unwrap();
    let units = lzma2_units(&writer.finish().unwrap());
    let (last, full) = units.split_last().unwrap();
    assert!(
        full.iter().all(|&size| size == UNIT as u64) && *last <= UNIT as u64,
        "LZMA2WriterMT units: {units:?}"
    );
}

#[test]
fn p2_lzip_mt_writer_cuts_exact_members_even_with_a_flush_between_writes() {
    const UNIT: usize = 64 * 1024;
    let data = text(300_000, 7);

    let mut options = LZIPOptions::with_preset(0);
    options.lzma_options.dict_size = UNIT as u32;
    options.set_member_size(NonZeroU64::new(UNIT as u64));
    let mut writer = LZIPWriterMT::new(Vec::new(), options, 2).unwrap();
    writer.write_all(&data[..100_000]).unwrap();
    writer.flush().unwrap();
    writer.write_all(&data[100_000..]).unwrap();
    let members: Vec<u64> = lzip_members(&writer.finish().unwrap())
        .iter()
        .map(|m| m.0)
        .collect();
    let (last, full) = members.split_last().unwrap();
    assert!(
        full.iter().all(|&size| size == UNIT as u64) && *last <= UNIT as u64,
        "LZIPWriterMT members: {members:?}"
    );
}

/// P3: LZIPWriter clamps the dictionary size to the LZIP minimum (4096) before it raises the
/// member size to it; LZIPWriterMT raises the member size to the *unclamped* option value, so with
/// dict_size < 4096 it cuts members smaller than the dictionary they are encoded with.
#[test]
fn p3_lzip_mt_member_size_is_raised_to_the_effective_dictionary_size() {
    let data = text(20_000, 9);
    let mut options = LZIPOptions::with_preset(0);
    options.lzma_options.dict_size = 1024;
    options.set_member_size(NonZeroU64::new(1000));

    let mut writer = LZIPWriter::new(Vec::new(), options.clone());
    writer.write_all(&data).unwrap();
    let st = lzip_members(&writer.finish().unwrap());

    let mut writer = LZIPWriterMT::new(Vec::new(), options, 2).unwrap();
    writer.write_all(&data).unwrap();
    let mt = lzip_members(&writer.finish().unwrap());

    // ST: 4096, 4096, 4096, 4096, 3616. MT: 1024 x 19 + 544.
    assert_eq!(
        st.iter().map(|m| m.0).collect::<Vec<_>>(),
        mt.iter().map(|m| m.0).collect::<Vec<_>>(),
        "single-threaded vs multi-threaded member data sizes"
    );
}

/// P4 (outside the literal statement of C18, which only names the MT writer): the single-threaded
/// LZMA2Writer counts *emitted* bytes against chunk_size and checks once per fill of the window, so
/// its independent units are several times the configured size and depend on the write partition.
#[test]
fn p4_st_lzma2_writer_honours_chunk_size() {
    const UNIT: u64 = 64 * 1024;
    let data = text(1 << 20, 7);
    let mut options = LZMA2Options::with_preset(0);
    options.lzma_options.dict_size = UNIT as u32;
    options.set_chunk_size(NonZeroU64::new(UNIT));

    for piece in [data.len(), 65536, 1000] {
        let mut writer = LZMA2Writer::new(Vec::new(), options.clone());
        for part in data.chunks(piece) {
            writer.write_all(part).unwrap();
        }
        let units = lzma2_units(&writer.finish().unwrap());
        assert!(
            units.iter().all(|&size| size <= UNIT),
            "write size {piece}: independent units {units:?} exceed chunk_size {UNIT}"
        );
    }
}
