use std::io::{Read, Write};
use lzma_rust2::{LZMA2Options, LZMA2Reader, LZMA2Writer};
#[test]
fn empty_preset_dictionary() {
    let mut o = LZMA2Options::with_preset(1);
    o.lzma_options.preset_dict = Some(Vec::new().into());
    let dict = o.lzma_options.dict_size;
    let data: Vec<u8> = (0..5000u32).map(|i| (i % 97) as u8).collect();
    let mut w = LZMA2Writer::new(Vec::new(), o);
    w.write_all(&data).unwrap();
    let enc = w.finish().unwrap();
    for preset in [None, Some(&[][..])] {
        let mut out = Vec::new();
        let r = LZMA2Reader::new(&enc[..], dict, preset).read_to_end(&mut out);
        assert!(r.is_ok() && out == data, "writer succeeded, reader ({:?}): {:?}", preset, r);
    }
}
