// C04: LZIPReaderMT cuts the file into units by walking the trailers' member sizes backwards and hands each unit to a
// worker that decodes it with the tolerant single-threaded reader. Two edits to a three-member file m0 m1 m2 - m1's
// magic damaged ("LZIQ") and m1's trailer member_size set to len(m0) + len(m1) - make [m0 m1] one unit; the worker
// decodes m0, takes the damaged m1 for trailing data OF THAT UNIT, and the reader returns Ok with m0 ++ m2: data with
// a hole in the middle. LZIPReader (and the reference) return only m0 for the same file (the loss the format allows).
// Put into tests/, run `cargo test --test C04-lzipmt-unit-with-damaged-member-inside`: fails before the fix
// ("fix: an LZIPReaderMT work unit must be exactly one member"), passes after it.
use std::io::{Cursor, Read, Write};

use lzma_rust2::*;

fn member(data: &[u8]) -> Vec<u8> {
    let mut o = LZIPOptions::with_preset(0);
    o.lzma_options.dict_size = 1 << 16;
    let mut w = LZIPWriter::new(Vec::new(), o);
    w.write_all(data).unwrap();
    w.finish().unwrap()
}

#[test]
fn damaged_member_inside_a_unit_is_not_skipped() {
    let d0: Vec<u8> = (0..3000u32).map(|i| (i % 7) as u8 + b'a').collect();
    let d1: Vec<u8> = (0..2000u32).map(|i| (i % 5) as u8 + b'A').collect();
    let d2: Vec<u8> = (0..1000u32).map(|i| (i % 3) as u8 + b'0').collect();
    let (m0, m1, m2) = (member(&d0), member(&d1), member(&d2));

    let mut file = [m0.clone(), m1.clone(), m2.clone()].concat();
    file[m0.len() + 3] = b'Q'; // LZIP -> LZIQ
    let size_pos = m0.len() + m1.len() - 8;
    file[size_pos..size_pos + 8].copy_from_slice(&((m0.len() + m1.len()) as u64).to_le_bytes());

    let mut st = Vec::new();
    let st_res = LZIPReader::new(&file[..]).and_then(|mut r| r.read_to_end(&mut st));
    assert!(st_res.is_ok());
    assert_eq!(st, d0, "the single-threaded reader returns the first member only");

    for workers in [1, 4] {
        let mut mt = Vec::new();
        let res = LZIPReaderMT::new(Cursor::new(file.clone()), workers).and_then(|mut r| r.read_to_end(&mut mt));
        match res {
            Err(_) => {}
            Ok(_) => assert_eq!(
                mt, d0,
                "{workers} workers: success with {} bytes that are neither the original ({}) nor the tolerated prefix ({})",
                mt.len(),
                d0.len() + d1.len() + d2.len(),
                d0.len()
            ),
        }
    }
}
