// C15 (and C05): LZMAWriter kept no record of a failed write. Its range encoder writes straight into the sink, so a
// sink error surfaces in the middle of encoding one symbol and leaves the LZ encoder between get_next_symbol and the
// read_ahead update. Writing again then calls extend_match(buf, read_pos = 0, .., distance = 1, ..) with
// start1 < distance: in this (debug) build the subtraction panics ("attempt to subtract with overflow", src/lz/mod.rs);
// in a release build with the `optimization` feature the wrapped value goes into `get_unchecked` - a read that starts
// one byte BEFORE the window allocation - before a later checked access panics. With later fault positions the second
// write simply returns Ok and finish() returns Ok with the bytes of the failed sink call missing.
// Put into tests/, run `cargo test --test C15-lzmawriter-reused-after-sink-error`: fails (panics) before the fix
// ("fix: LZMAWriter must not be used again after a sink error"), passes after it.
use std::io::{self, Write};

use lzma_rust2::*;

struct FailNth {
    calls: usize,
    fail_at: usize,
    out: Vec<u8>,
}

impl Write for FailNth {
    fn write(&mut self, buf: &[u8]) -> io::Result<usize> {
        self.calls += 1;
        if self.calls == self.fail_at {
            return Err(io::Error::new(io::ErrorKind::Other, "sink failure"));
        }
        self.out.extend_from_slice(buf);
        Ok(buf.len())
    }

    fn flush(&mut self) -> io::Result<()> {
        Ok(())
    }
}

fn text() -> Vec<u8> {
    let mut v = Vec::new();
    let mut i = 0u32;
    while v.len() < 60_000 {
        v.extend_from_slice(format!("GET /index{}.html HTTP/1.1 host-{} agent\n", i % 97, i % 13).as_bytes());
        i += 1;
    }
    v
}

#[test]
fn a_writer_that_failed_stays_failed() {
    let data = text();
    for preset in [1u32, 3, 6] {
        for fail_at in [1usize, 2, 3, 10, 100] {
            let mut o = LZMAOptions::with_preset(preset);
            o.dict_size = 4096;
            let sink = FailNth { calls: 0, fail_at, out: Vec::new() };
            let mut w = LZMAWriter::new_no_header(sink, &o, true).unwrap();
            let first = w.write_all(&data);
            assert!(first.is_err(), "preset {preset}, sink call {fail_at}: the sink error must reach the caller");
            // must neither panic nor report success
            let second = w.write_all(&data);
            assert!(second.is_err(), "preset {preset}, sink call {fail_at}: write after a failed write returned Ok");
            assert!(w.finish().is_err(), "preset {preset}, sink call {fail_at}: finish after a failed write returned Ok");
        }
    }
}
