use std::io::Read;
use lzma_rust2::LZMA2Reader;
#[test]
fn lzma2_reader_with_dict_size_zero_does_not_panic() {
    let r = std::panic::catch_unwind(|| {
        let mut out = Vec::new();
        // one uncompressed chunk with dictionary reset ("A"), then the end marker
        let res = LZMA2Reader::new(&[0x01u8, 0x00, 0x00, 0x41, 0x00][..], 0, None).read_to_end(&mut out);
        (res.is_ok(), out)
    });
    assert!(r.is_ok(), "LZMA2Reader::new(.., 0, ..) panicked");
}
