// C05: BCJ2Reader kept no record of a failed read. It decodes into the caller's buffer first and refills its four inputs
// afterwards; when a refill fails with a real error (not Interrupted) the bytes decoded in that call are lost together
// with the Err, and a caller that reads again gets the continuation behind the hole: Ok bytes that are not the original.
// Put into tests/, run `cargo test --test C05-bcj2-read-after-error`: fails before the fix
// ("fix: BCJ2Reader must not be run again after it returned an error"), passes after it.
// (The encoder below is a plain reference-style BCJ2 encoder written for this demonstration.)
use std::io::{self, Read};

use lzma_rust2::filter::bcj2::BCJ2Reader;

struct Rng(u64);

impl Rng {
    fn next(&mut self) -> u32 {
        self.0 = self
            .0
            .wrapping_mul(6364136223846793005)
            .wrapping_add(1442695040888963407);
        (self.0 >> 33) as u32
    }
}

/// LZMA style range encoder as used by the reference BCJ2 encoder.
struct RangeEncoder {
    low: u64,
    range: u32,
    cache: u8,
    cache_size: u64,
    out: Vec<u8>,
}

impl RangeEncoder {
    fn new() -> Self {
        Self {
            low: 0,
            range: 0xFFFF_FFFF,
            cache: 0,
            cache_size: 1,
            out: Vec::new(),
        }
    }

    fn shift_low(&mut self) {
        if (self.low as u32) < 0xFF00_0000 || (self.low >> 32) != 0 {
            let carry = (self.low >> 32) as u8;
            let mut temp = self.cache;
            loop {
                self.out.push(temp.wrapping_add(carry));
                temp = 0xFF;
                self.cache_size -= 1;
                if self.cache_size == 0 {
                    break;
                }
            }
            self.cache = (self.low >> 24) as u8;
        }
        self.cache_size += 1;
        self.low = (self.low & 0x00FF_FFFF) << 8;
    }

    fn encode(&mut self, prob: &mut u16, bit: bool) {
        let bound = (self.range >> 11) * (*prob as u32);
        if bit {
            self.low += bound as u64;
            self.range -= bound;
            *prob -= *prob >> 5;
        } else {
            self.range = bound;
            *prob += (2048 - *prob) >> 5;
        }
        while self.range < (1 << 24) {
            self.range <<= 8;
            self.shift_low();
        }
    }

    fn finish(mut self) -> Vec<u8> {
        for _ in 0..5 {
            self.shift_low();
        }
        self.out
    }
}

/// BCJ2 encoder with the stream layout of the reference (7-Zip) encoder: MAIN, CALL, JUMP, RC.
/// `convert` decides for every candidate whether its relative address is converted.
fn bcj2_encode(data: &[u8], mut convert: impl FnMut() -> bool) -> [Vec<u8>; 4] {
    let mut main = Vec::new();
    let mut call = Vec::new();
    let mut jump = Vec::new();
    let mut rc = RangeEncoder::new();
    let mut probs = [1024u16; 2 + 256];
    let mut prev = 0u8;
    let mut i = 0;
    while i < data.len() {
        let b = data[i];
        main.push(b);
        i += 1;
        let is_candidate = (b & 0xFE) == 0xE8 || (prev == 0x0F && (b & 0xF0) == 0x80);
        if !is_candidate {
            prev = b;
            continue;
        }
        let prob = if b == 0xE8 {
            2 + prev as usize
        } else if b == 0xE9 {
            1
        } else {
            0
        };
        if data.len() - i >= 4 && convert() {
            rc.encode(&mut probs[prob], true);
            let rel = u32::from_le_bytes([data[i], data[i + 1], data[i + 2], data[i + 3]]);
            i += 4;
            let abs = rel.wrapping_add(i as u32);
            let stream = if b == 0xE8 { &mut call } else { &mut jump };
            stream.extend_from_slice(&abs.to_be_bytes());
            prev = (rel >> 24) as u8;
        } else {
            rc.encode(&mut probs[prob], false);
            prev = b;
        }
    }
    [main, call, jump, rc.finish()]
}

/// Synthetic 32-bit x86 code with plenty of CALL, JMP and Jcc instructions.
fn synthetic_code(len: usize, rng: &mut Rng) -> Vec<u8> {
    let mut v = Vec::with_capacity(len + 8);
    while v.len() < len {
        match rng.next() % 8 {
            0 | 1 => {
                v.push(0xE8);
                v.extend_from_slice(&((rng.next() % 0x40000) as i32 - 0x20000).to_le_bytes());
            }
            2 => {
                v.push(0xE9);
                v.extend_from_slice(&((rng.next() % 0x4000) as i32 - 0x2000).to_le_bytes());
            }
            3 => {
                v.push(0x0F);
                v.push(0x80 | (rng.next() % 16) as u8);
                v.extend_from_slice(&((rng.next() % 0x4000) as i32 - 0x2000).to_le_bytes());
            }
            _ => v.push(rng.next() as u8),
        }
    }
    v.truncate(len);
    v
}


/// Source that hands out at most `chunk` bytes per call and fails once, at call number `fail_at`.
struct Flaky {
    data: Vec<u8>,
    pos: usize,
    chunk: usize,
    calls: usize,
    fail_at: usize,
}

impl Read for Flaky {
    fn read(&mut self, buf: &mut [u8]) -> io::Result<usize> {
        self.calls += 1;
        if self.calls == self.fail_at {
            return Err(io::Error::new(io::ErrorKind::TimedOut, "transient"));
        }
        let n = buf.len().min(self.chunk).min(self.data.len() - self.pos);
        buf[..n].copy_from_slice(&self.data[self.pos..self.pos + n]);
        self.pos += n;
        Ok(n)
    }
}

#[test]
fn reading_on_after_an_error_never_yields_wrong_bytes() {
    let mut rng = Rng(11);
    let original = synthetic_code(60_000, &mut rng);
    let streams = bcj2_encode(&original, || true);
    let mut wrong = 0;
    for which in 0..4 {
        for fail_at in 1..40 {
            let inputs: Vec<Flaky> = streams
                .iter()
                .enumerate()
                .map(|(i, d)| Flaky { data: d.clone(), pos: 0, chunk: 1000, calls: 0, fail_at: if i == which { fail_at } else { usize::MAX } })
                .collect();
            let mut r = BCJ2Reader::new(inputs, original.len() as u64);
            let mut out = Vec::new();
            let mut buf = vec![0u8; 16 * 1024];
            let mut errs = 0;
            loop {
                match r.read(&mut buf) {
                    Ok(0) => break,
                    Ok(n) => out.extend_from_slice(&buf[..n]),
                    Err(_) => {
                        errs += 1;
                        if errs > 3 {
                            break;
                        }
                    }
                }
            }
            if out.len() > original.len() || out[..] != original[..out.len()] {
                wrong += 1;
                if wrong == 1 {
                    eprintln!("input {which} fails at call {fail_at}: {} bytes delivered, not a prefix of the original", out.len());
                }
            }
        }
    }
    assert_eq!(wrong, 0, "{wrong} fault positions made BCJ2Reader deliver wrong bytes with Ok");
}
