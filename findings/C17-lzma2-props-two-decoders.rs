//! Pristine observation (C17): LZMA2Reader exceeds lzma2_get_memory_usage(dict_size) when the
//! stream carries new properties a second time with lc + lp = 4.
//!
//! LZMA2Reader::decode_props does `self.lzma = Some(LZMADecoder::new(..))`: the new decoder (with
//! its 24 KiB literal probability table for lc + lp = 4) is built while the old one is still
//! alive. Window + 64 KiB range-decoder buffer + 2 x 24 KiB is 8187 bytes more than the
//! estimator's `40 + 64 + dict/1024` KiB. This test FAILS on the pristine tree.

use std::alloc::{GlobalAlloc, Layout, System};
use std::io::{Read, Write};
use std::sync::atomic::{AtomicUsize, Ordering::SeqCst};

use lzma_rust2::{lzma2_get_memory_usage, LZMA2Options, LZMA2Reader, LZMA2Writer};

struct Counting;
static LIVE: AtomicUsize = AtomicUsize::new(0);
static PEAK: AtomicUsize = AtomicUsize::new(0);

fn add(n: usize) {
    let live = LIVE.fetch_add(n, SeqCst) + n;
    PEAK.fetch_max(live, SeqCst);
}

unsafe impl GlobalAlloc for Counting {
    unsafe fn alloc(&self, l: Layout) -> *mut u8 {
        let p = System.alloc(l);
        if !p.is_null() {
            add(l.size());
        }
        p
    }
    unsafe fn alloc_zeroed(&self, l: Layout) -> *mut u8 {
        let p = System.alloc_zeroed(l);
        if !p.is_null() {
            add(l.size());
        }
        p
    }
    unsafe fn dealloc(&self, p: *mut u8, l: Layout) {
        System.dealloc(p, l);
        LIVE.fetch_sub(l.size(), SeqCst);
    }
    unsafe fn realloc(&self, p: *mut u8, l: Layout, new: usize) -> *mut u8 {
        let q = System.realloc(p, l, new);
        if !q.is_null() {
            if new > l.size() {
                add(new - l.size());
            } else {
                LIVE.fetch_sub(l.size() - new, SeqCst);
            }
        }
        q
    }
}

#[global_allocator]
static A: Counting = Counting;

/// Peak of live bytes above the level at entry while running `f`.
fn peak_of<T>(f: impl FnOnce() -> T) -> (usize, T) {
    let base = LIVE.load(SeqCst);
    PEAK.store(base, SeqCst);
    let r = f();
    (PEAK.load(SeqCst).saturating_sub(base), r)
}

fn data(n: usize) -> Vec<u8> {
    let mut v = Vec::with_capacity(n + 32);
    let mut x = 12345u32;
    while v.len() < n {
        x = x.wrapping_mul(1103515245).wrapping_add(12345);
        let b = (x >> 16) as u8;
        if b < 200 {
            v.push(b & 15);
        } else {
            v.extend_from_slice(b"hello hello world ");
        }
    }
    v.truncate(n);
    v
}

#[test]
fn lzma2_reader_peak_with_two_props_chunks() {
    let input = data(40_000);
    let mut failures = Vec::new();
    for &dict in &[4096u32, 1 << 16, 1 << 20] {
        for (lc, lp) in [(3u32, 0u32), (0, 4), (4, 0), (2, 2)] {
            let mut o2 = LZMA2Options::with_preset(1);
            o2.lzma_options.dict_size = dict;
            o2.lzma_options.lc = lc;
            o2.lzma_options.lp = lp;
            let mut w = LZMA2Writer::new(Vec::new(), o2);
            w.write_all(&input).unwrap();
            let mut comp = w.finish().unwrap();
            // One chunk with dictionary reset + props (control 0xE0), then the end byte.
            assert!(comp[0] >= 0xE0);
            // Repeat the chunk: a valid stream whose second chunk sets the props again.
            comp.pop();
            let once = comp.clone();
            comp.extend_from_slice(&once);
            comp.push(0);

            let est = lzma2_get_memory_usage(dict) as usize * 1024;
            let mut out = vec![0u8; 2 * input.len() + 16];
            let (peak, n) = peak_of(|| {
                let mut r = LZMA2Reader::new(comp.as_slice(), dict, None);
                let mut n = 0;
                loop {
                    let k = r.read(&mut out[n..]).unwrap();
                    if k == 0 {
                        break;
                    }
                    n += k;
                }
                n
            });
            assert_eq!(n, 2 * input.len());
            assert_eq!(&out[..input.len()], &input[..]);
            assert_eq!(&out[input.len()..n], &input[..]);
            if peak > est {
                failures.push(format!(
                    "dict={dict} lc={lc} lp={lp}: peak {peak} B > estimate {est} B (by {} B)",
                    peak - est
                ));
            }
        }
    }
    assert!(failures.is_empty(), "LZMA2Reader over its estimate:\n{}", failures.join("\n"));
}
