// C07 / C01: LZMA2Writer, fast mode, BT4, dict 64 KiB, nice_len 273: write most of a window, flush(), write more.
// After the flush up to nice_len - 1 positions are "pending" (read_pos already advanced past them). The next
// fill_window moves the window keeping keep_size_before bytes in front of the ADVANCED read_pos; then
// process_pending_bytes rewinds read_pos by the pending count and re-runs the match finder, whose maximum-distance
// candidates now lie in front of the buffer: the second write_all panics with
// "index out of bounds: the len is 360994 but the index is 18446744073709551398" (src/lz/lz_encoder.rs, get_byte_by_pos).
// No I/O error is involved: a valid sequence of calls on valid data panics, depending on where the flush falls.
// Put into tests/, run `cargo test --test C07-flush-before-window-move-bt4`: panics before the fix
// ("fix: LZ encoder window move must keep the history of the pending bytes"), passes after it.
use std::io::{Read, Write};

use lzma_rust2::*;

fn periodic(len: usize, period: usize) -> Vec<u8> {
    let mut x = 0x9E3779B9u32;
    let block: Vec<u8> = (0..period)
        .map(|_| {
            x ^= x << 13;
            x ^= x >> 17;
            x ^= x << 5;
            (x >> 24) as u8
        })
        .collect();
    (0..len).map(|i| block[i % period]).collect()
}

#[test]
fn flush_shortly_before_the_window_is_full() {
    let data = periodic(500_000, 65536);
    for first in [360_694usize, 360_894, 360_993, 360_994] {
        let mut o = LZMA2Options::with_preset(1);
        o.lzma_options.mode = EncodeMode::Fast;
        o.lzma_options.mf = MFType::BT4;
        o.lzma_options.dict_size = 65536;
        o.lzma_options.nice_len = 273;
        let mut w = LZMA2Writer::new(Vec::new(), o);
        w.write_all(&data[..first]).unwrap();
        w.flush().unwrap();
        w.write_all(&data[first..]).unwrap();
        let stream = w.finish().unwrap();
        let mut out = Vec::new();
        LZMA2Reader::new(&stream[..], 65536, None).read_to_end(&mut out).unwrap();
        assert_eq!(out, data, "first = {first}");
    }
}
