// C06 (allocation clause: "... or allocating more than the dictionary size the input declares plus an amount
// proportional to the input's own length"): the multi-threaded readers hand complete decompressed units from the
// worker to the coordinator (`read_to_end` of a whole LZIP member / of everything up to the next independent LZMA2
// chunk into a Vec). 64 MiB of zeros compress to under 10 KB with a 64 KiB dictionary; reading the FIRST byte through
// LZIPReaderMT / LZMA2ReaderMT allocates more than 64 MiB, the single-threaded readers need about 100 KiB.
// Recorded as a known finding (not repaired: the unit hand-over is the design of the MT readers; bounding it needs
// a streaming hand-over or a size cap that changes the API).
// Put into tests/, run `cargo test --release --test C06-mt-readers-buffer-whole-units -- --test-threads=1`:
// the two `mt_` tests fail on the current tree.
use std::alloc::{GlobalAlloc, Layout, System};
use std::io::{Cursor, Read, Write};
use std::sync::atomic::{AtomicUsize, Ordering};

use lzma_rust2::*;

struct Counting;
static CUR: AtomicUsize = AtomicUsize::new(0);
static PEAK: AtomicUsize = AtomicUsize::new(0);

unsafe impl GlobalAlloc for Counting {
    unsafe fn alloc(&self, l: Layout) -> *mut u8 {
        let c = CUR.fetch_add(l.size(), Ordering::SeqCst) + l.size();
        PEAK.fetch_max(c, Ordering::SeqCst);
        unsafe { System.alloc(l) }
    }
    unsafe fn dealloc(&self, p: *mut u8, l: Layout) {
        CUR.fetch_sub(l.size(), Ordering::SeqCst);
        unsafe { System.dealloc(p, l) }
    }
}

#[global_allocator]
static A: Counting = Counting;

const N: usize = 64 << 20;
const BUDGET: usize = 8 << 20; // dictionary 64 KiB + input 10 KB: 8 MiB is generous

fn lzip_file() -> Vec<u8> {
    let mut o = LZIPOptions::with_preset(0);
    o.lzma_options.dict_size = 1 << 16;
    let mut w = LZIPWriter::new(Vec::new(), o);
    let z = vec![0u8; 1 << 20];
    for _ in 0..(N >> 20) {
        w.write_all(&z).unwrap();
    }
    w.finish().unwrap()
}

fn lzma2_file() -> Vec<u8> {
    let mut o = LZMA2Options::with_preset(0);
    o.lzma_options.dict_size = 1 << 16;
    let mut w = LZMA2Writer::new(Vec::new(), o);
    let z = vec![0u8; 1 << 20];
    for _ in 0..(N >> 20) {
        w.write_all(&z).unwrap();
    }
    w.finish().unwrap()
}

fn peak_of(f: impl FnOnce()) -> usize {
    let base = CUR.load(Ordering::SeqCst);
    PEAK.store(base, Ordering::SeqCst);
    f();
    PEAK.load(Ordering::SeqCst) - base
}

#[test]
fn st_lzip_first_byte_is_cheap() {
    let file = lzip_file();
    assert!(file.len() < 20_000);
    let p = peak_of(|| {
        let mut r = LZIPReader::new(&file[..]).unwrap();
        r.read_exact(&mut [0u8; 1]).unwrap();
    });
    assert!(p < BUDGET, "{p}");
}

#[test]
fn mt_lzip_first_byte() {
    let file = lzip_file();
    let p = peak_of(|| {
        let mut r = LZIPReaderMT::new(Cursor::new(file.clone()), 2).unwrap();
        r.read_exact(&mut [0u8; 1]).unwrap();
    });
    assert!(p < BUDGET, "LZIPReaderMT allocated {} KiB to deliver one byte of a {} byte file", p >> 10, file.len());
}

#[test]
fn mt_lzma2_first_byte() {
    let file = lzma2_file();
    let p = peak_of(|| {
        let mut r = LZMA2ReaderMT::new(Cursor::new(file.clone()), 1 << 16, None, 2);
        r.read_exact(&mut [0u8; 1]).unwrap();
    });
    assert!(p < BUDGET, "LZMA2ReaderMT allocated {} KiB to deliver one byte of a {} byte file", p >> 10, file.len());
}
