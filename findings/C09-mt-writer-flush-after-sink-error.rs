// C09: after a failed sink write the multi-threaded writers are in their error state (the unit that was taken out
// of the reorder buffer is gone), and write() and finish() fail - but flush() never looked at the state: a second
// flush() found nothing left to wait for and returned Ok(()) although a unit is missing from the sink.
// Put into tests/, run `cargo test --test C09-mt-writer-flush-after-sink-error`: fails before the fix
// ("fix: flush of the multi-threaded writers must fail once the writer has failed"), passes after it.
use std::io::{self, Write};
use std::num::NonZeroU64;

use lzma_rust2::*;

struct FailFirstWrite {
    calls: usize,
    data: Vec<u8>,
}

impl Write for FailFirstWrite {
    fn write(&mut self, buf: &[u8]) -> io::Result<usize> {
        self.calls += 1;
        if self.calls == 1 {
            return Err(io::Error::new(io::ErrorKind::Other, "sink failure"));
        }
        self.data.extend_from_slice(buf);
        Ok(buf.len())
    }

    fn flush(&mut self) -> io::Result<()> {
        Ok(())
    }
}

fn data() -> Vec<u8> {
    (0..1000u32).map(|i| (i * 7 % 251) as u8).collect()
}

#[test]
fn lzma2_writer_mt_flush_keeps_failing() {
    let mut o = LZMA2Options::with_preset(1);
    o.lzma_options.dict_size = 4096;
    o.chunk_size = NonZeroU64::new(4096);
    let mut w = LZMA2WriterMT::new(FailFirstWrite { calls: 0, data: Vec::new() }, o, 1).unwrap();
    w.write_all(&data()).unwrap();
    assert!(w.flush().is_err(), "the sink failed");
    for i in 0..3 {
        assert!(w.flush().is_err(), "flush #{} after the failure reported success with a unit missing", i + 2);
    }
    assert!(w.finish().is_err());
}

#[test]
fn lzip_writer_mt_flush_keeps_failing() {
    let mut o = LZIPOptions::with_preset(1);
    o.lzma_options.dict_size = 4096;
    o.member_size = NonZeroU64::new(4096);
    let mut w = LZIPWriterMT::new(FailFirstWrite { calls: 0, data: Vec::new() }, o, 1).unwrap();
    w.write_all(&data()).unwrap();
    assert!(w.flush().is_err(), "the sink failed");
    for i in 0..3 {
        assert!(w.flush().is_err(), "flush #{} after the failure reported success with a member missing", i + 2);
    }
    assert!(w.finish().is_err());
}
