// C09 / C08: when a unit fails in a worker, the multi-threaded readers could hand out the data of LATER units before
// they reported the failure. The failing worker stores its error and wakes the coordinator with an empty placeholder
// result; the coordinator took the placeholder for the result of that unit, moved on, found later units in its reorder
// buffer (which it consulted before the error store) and returned them: read() -> Ok("AAAAA"), Ok("CCCCC"), Ok("DDDDD"),
// Err(..): successful reads with a 6 MiB hole in the data.
// Put into tests/, run `cargo test --release --test C09-mt-readers-hand-out-data-behind-a-failed-unit`: fails before the
// fix ("fix: multi-threaded readers must report a failed unit before handing out later ones"), passes after it.
// (Schedule dependent; the slow source makes later units reach the reorder buffer first. 3 rounds each.)
use std::io::{self, Cursor, Read, Seek, SeekFrom, Write};
use std::thread;
use std::time::Duration;

use lzma_rust2::*;

struct SlowAfter {
    inner: Cursor<Vec<u8>>,
    after: u64,
}

impl Read for SlowAfter {
    fn read(&mut self, buf: &mut [u8]) -> io::Result<usize> {
        if self.inner.position() >= self.after {
            thread::sleep(Duration::from_millis(5));
        }
        self.inner.read(buf)
    }
}

impl Seek for SlowAfter {
    fn seek(&mut self, pos: SeekFrom) -> io::Result<u64> {
        if let SeekFrom::Start(p) = pos {
            if p >= self.after {
                thread::sleep(Duration::from_millis(5));
            }
        }
        self.inner.seek(pos)
    }
}

fn sample(len: usize) -> Vec<u8> {
    let mut x = 9u32;
    (0..len)
        .map(|i| {
            x ^= x << 13;
            x ^= x >> 17;
            x ^= x << 5;
            if i % 5 == 0 { (x >> 24) as u8 } else { b'a' + (i % 23) as u8 }
        })
        .collect()
}

fn plain_unit(data: &[u8]) -> Vec<u8> {
    let mut v = vec![0x01, 0, (data.len() - 1) as u8];
    v.extend_from_slice(data);
    v
}

fn drive<R: Read>(mut r: R) -> (Vec<std::result::Result<usize, io::ErrorKind>>, Vec<u8>) {
    let mut buf = [0u8; 64];
    let mut outcomes = Vec::new();
    let mut out = Vec::new();
    for _ in 0..8 {
        match r.read(&mut buf) {
            Ok(n) => {
                out.extend_from_slice(&buf[..n]);
                outcomes.push(Ok(n));
            }
            Err(e) => outcomes.push(Err(e.kind())),
        }
    }
    (outcomes, out)
}

#[test]
fn lzma2_reader_mt_reports_the_failed_unit_first() {
    for round in 0..3 {
        let mut stream = plain_unit(b"AAAAA");
        let mut o = LZMA2Options::with_preset(1);
        o.lzma_options.dict_size = 1 << 16;
        let mut w = LZMA2Writer::new(Vec::new(), o);
        w.write_all(&sample(6 << 20)).unwrap();
        let mut bad = w.finish().unwrap();
        bad.pop(); // end marker
        bad.extend_from_slice(&[0xC0, 0, 0, 0, 0, 0xFF, 0]); // chunk with an invalid props byte
        stream.extend_from_slice(&bad);
        let after = stream.len() as u64 + 1;
        stream.extend_from_slice(&plain_unit(b"CCCCC"));
        stream.extend_from_slice(&plain_unit(b"DDDDD"));
        stream.push(0);
        let src = SlowAfter { inner: Cursor::new(stream), after };
        let (outcomes, out) = drive(LZMA2ReaderMT::new(src, 1 << 16, None, 4));
        assert!(outcomes.iter().any(|o| o.is_err()), "round {round}: {outcomes:?}");
        assert!(
            !out.windows(5).any(|w| w == b"CCCCC" || w == b"DDDDD"),
            "round {round}: data behind the failed unit was handed out: {outcomes:?}, {} bytes delivered",
            out.len()
        );
    }
}

#[test]
fn lzip_reader_mt_reports_the_failed_member_first() {
    let member = |d: &[u8]| {
        let mut o = LZIPOptions::with_preset(1);
        o.lzma_options.dict_size = 1 << 16;
        let mut w = LZIPWriter::new(Vec::new(), o);
        w.write_all(d).unwrap();
        w.finish().unwrap()
    };
    for round in 0..3 {
        let mut file = member(b"AAAAA");
        let mut bad = member(&sample(6 << 20));
        let p = bad.len() - 20;
        bad[p] ^= 1; // stored CRC32
        file.extend_from_slice(&bad);
        let after = file.len() as u64;
        file.extend_from_slice(&member(b"CCCCC"));
        file.extend_from_slice(&member(b"DDDDD"));
        let src = SlowAfter { inner: Cursor::new(file), after };
        let (outcomes, out) = drive(LZIPReaderMT::new(src, 4).unwrap());
        assert!(outcomes.iter().any(|o| o.is_err()), "round {round}: {outcomes:?}");
        assert!(
            !out.windows(5).any(|w| w == b"CCCCC" || w == b"DDDDD"),
            "round {round}: data behind the failed member was handed out: {outcomes:?}, {} bytes delivered",
            out.len()
        );
    }
}
