use std::io::{Read, Write};
use lzma_rust2::{LZMA2Options, LZMA2Reader, LZMA2Writer};
#[test]
fn two_flushes_near_the_start() {
    for (a, b) in [(&b"a"[..], &b"b"[..]), (&b"abc"[..], &b"d"[..]), (&b"0123456789"[..], &b"x"[..])] {
        for preset in [1u32, 6] {
            let r = std::panic::catch_unwind(|| {
                let o = LZMA2Options::with_preset(preset);
                let dict = o.lzma_options.dict_size;
                let mut w = LZMA2Writer::new(Vec::new(), o);
                w.write_all(a).unwrap(); w.flush().unwrap();
                w.write_all(b).unwrap(); w.flush().unwrap();
                let enc = w.finish().unwrap();
                let mut out = Vec::new();
                LZMA2Reader::new(&enc[..], dict, None).read_to_end(&mut out).unwrap();
                out == [a, b].concat()
            });
            assert!(matches!(r, Ok(true)), "{:?}+{:?} preset {}: {:?}", a, b, preset, r.map_err(|_| "panic"));
        }
    }
}
