// C08 / C12: trailing data may contain anything, also something that looks like (or is) a complete member.
// For `A ++ B ++ "xx" ++ C` the single-threaded reader returns A+B ("xx" does not start with the magic: trailing
// data). LZIPReaderMT found C at the end of the file, walked back, hit "xx" where B's trailer should end and failed
// with "Invalid LZIP member size in trailer". Same for trailing data that merely contains a plausible trailer.
// Put into tests/, run `cargo test --test C08-lzipmt-member-like-trailing-data`: fails before the fix
// ("fix: LZIPReaderMT: a member chain that does not reach the start of the file began in trailing data"), passes after.
use std::io::{Cursor, Read, Write};

use lzma_rust2::*;

fn member(data: &[u8]) -> Vec<u8> {
    let mut o = LZIPOptions::with_preset(0);
    o.lzma_options.dict_size = 1 << 16;
    let mut w = LZIPWriter::new(Vec::new(), o);
    w.write_all(data).unwrap();
    w.finish().unwrap()
}

fn both(file: &[u8]) -> (std::io::Result<Vec<u8>>, std::io::Result<Vec<u8>>) {
    let mut st = Vec::new();
    let st_res = LZIPReader::new(file).and_then(|mut r| r.read_to_end(&mut st)).map(|_| st);
    let mut mt = Vec::new();
    let mt_res = LZIPReaderMT::new(Cursor::new(file.to_vec()), 2)
        .and_then(|mut r| r.read_to_end(&mut mt))
        .map(|_| mt);
    (st_res, mt_res)
}

#[test]
fn member_like_data_inside_trailing_data() {
    let a = member(&vec![b'a'; 5000]);
    let b = member(b"second member");
    let c = member(b"a third member that sits behind garbage");

    // A B xx C
    let mut file = [a.clone(), b.clone()].concat();
    file.extend_from_slice(b"xx");
    file.extend_from_slice(&c);
    let (st, mt) = both(&file);
    let st = st.unwrap();
    assert_eq!(st.len(), 5000 + 13);
    assert_eq!(mt.expect("multi-threaded reader fails where the single-threaded one succeeds"), st);

    // A B "xx" "LZIP" junk le64(42): a plausible trailer inside the trailing data
    let mut file = [a.clone(), b.clone()].concat();
    file.extend_from_slice(b"xxLZIP");
    file.extend_from_slice(&[0x55u8; 30]);
    file.extend_from_slice(&42u64.to_le_bytes());
    let (st, mt) = both(&file);
    assert_eq!(mt.expect("multi-threaded reader fails where the single-threaded one succeeds"), st.unwrap());

    // a damaged magic in the middle: both readers return what is in front of it
    let mut file = [a.clone(), b.clone(), c.clone()].concat();
    file[a.len() + 2] = b'X';
    let (st, mt) = both(&file);
    assert_eq!(st.unwrap().len(), 5000);
    assert_eq!(mt.unwrap().len(), 5000);

    // a damaged member size in the middle stays an error in both
    let mut file = [a.clone(), b.clone(), c.clone()].concat();
    let pos = a.len() + b.len() - 8;
    file[pos] ^= 0x10;
    let (st, mt) = both(&file);
    assert!(st.is_err());
    assert!(mt.is_err());

    // garbage in front of the first member stays an error in both
    let mut file = b"garbage".to_vec();
    file.extend_from_slice(&a);
    let (st, mt) = both(&file);
    assert!(st.is_err());
    assert!(mt.is_err());
}
