use std::alloc::{GlobalAlloc, Layout, System};
use std::io::Write;
use std::sync::atomic::{AtomicUsize, Ordering};
use lzma_rust2::{EncodeMode, LZMAOptions, LZMAWriter};

struct Counting;
static CUR: AtomicUsize = AtomicUsize::new(0);
static PEAK: AtomicUsize = AtomicUsize::new(0);
unsafe impl GlobalAlloc for Counting {
    unsafe fn alloc(&self, l: Layout) -> *mut u8 {
        let p = System.alloc(l);
        if !p.is_null() { let c = CUR.fetch_add(l.size(), Ordering::SeqCst) + l.size(); PEAK.fetch_max(c, Ordering::SeqCst); }
        p
    }
    unsafe fn dealloc(&self, p: *mut u8, l: Layout) { System.dealloc(p, l); CUR.fetch_sub(l.size(), Ordering::SeqCst); }
    unsafe fn alloc_zeroed(&self, l: Layout) -> *mut u8 {
        let p = System.alloc_zeroed(l);
        if !p.is_null() { let c = CUR.fetch_add(l.size(), Ordering::SeqCst) + l.size(); PEAK.fetch_max(c, Ordering::SeqCst); }
        p
    }
}
#[global_allocator]
static A: Counting = Counting;

#[test]
fn estimate_covers_the_literal_coder() {
    let mut o = LZMAOptions::with_preset(1);
    o.mode = EncodeMode::Fast;
    o.dict_size = 1 << 16;
    o.lc = 8; o.lp = 4;
    let est = o.get_memory_usage() as usize * 1024;
    let before = CUR.load(Ordering::SeqCst);
    PEAK.store(before, Ordering::SeqCst);
    let mut w = LZMAWriter::new_no_header(Vec::new(), &o, true).unwrap();
    w.write_all(&[1u8; 1000]).unwrap();
    let _ = w.finish().unwrap();
    let peak = PEAK.load(Ordering::SeqCst) - before;
    assert!(peak <= est, "estimate {} bytes, real peak {} bytes", est, peak);
}
