use std::io::{Read, Write};
use lzma_rust2::{LZMA2Options, LZMA2Reader, LZMA2Writer};

#[test]
fn small_dictionary_incompressible_input() {
    let mut data = Vec::new();
    let mut x = 88172645463325252u64;
    for _ in 0..1_500_000 { x ^= x << 13; x ^= x >> 7; x ^= x << 17; data.push((x >> 32) as u8); }
    for dict in [4096u32, 16384, 32768, 65536] {
        for preset in [0u32, 6] {
            let d = data.clone();
            let r = std::panic::catch_unwind(move || {
                let mut o = LZMA2Options::with_preset(preset);
                o.lzma_options.dict_size = dict;
                let mut w = LZMA2Writer::new(Vec::new(), o);
                w.write_all(&d).unwrap();
                let enc = w.finish().unwrap();
                let mut out = Vec::new();
                LZMA2Reader::new(&enc[..], dict, None).read_to_end(&mut out).unwrap();
                out == d
            });
            assert!(matches!(r, Ok(true)), "dict {} preset {}: {:?}", dict, preset, r.map_err(|_| "panic"));
        }
    }
}
