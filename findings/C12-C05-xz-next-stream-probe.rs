use std::io::{self, Read, Write};
use lzma_rust2::{XZOptions, XZReader, XZWriter};

fn xz(data: &[u8]) -> Vec<u8> {
    let mut w = XZWriter::new(Vec::new(), XZOptions::with_preset(1)).unwrap();
    w.write_all(data).unwrap();
    w.finish().unwrap()
}

#[test]
fn trailing_padding_must_be_a_multiple_of_four() {
    let f = xz(b"hello hello hello");
    for pad in [1usize, 2, 3, 5, 6, 7] {
        let mut g = f.clone();
        g.extend(std::iter::repeat(0u8).take(pad));
        let mut out = Vec::new();
        let r = XZReader::new(&g[..], true).read_to_end(&mut out);
        assert!(r.is_err(), "padding {} accepted", pad);
    }
    for pad in [0usize, 4, 8] {
        let mut g = f.clone();
        g.extend(std::iter::repeat(0u8).take(pad));
        let mut out = Vec::new();
        XZReader::new(&g[..], true).read_to_end(&mut out).unwrap();
        assert_eq!(out, b"hello hello hello");
    }
}

struct Faulty { data: Vec<u8>, pos: usize, call: usize, fail_at: usize }
impl Read for Faulty {
    fn read(&mut self, buf: &mut [u8]) -> io::Result<usize> {
        let c = self.call; self.call += 1;
        if c == self.fail_at { return Err(io::Error::new(io::ErrorKind::Interrupted, "interrupted")); }
        let n = buf.len().min(self.data.len() - self.pos);
        buf[..n].copy_from_slice(&self.data[self.pos..self.pos + n]);
        self.pos += n;
        Ok(n)
    }
}

#[test]
fn interrupted_at_any_source_call_is_harmless() {
    let data: Vec<u8> = (0..5000u32).map(|i| (i * 7 % 253) as u8).collect();
    let f = xz(&data);
    for k in 0..60 {
        let mut out = Vec::new();
        let r = XZReader::new(Faulty { data: f.clone(), pos: 0, call: 0, fail_at: k }, true).read_to_end(&mut out);
        assert!(r.is_ok() && out == data, "Interrupted at source call {}: {:?}", k, r.map(|_| out.len()));
    }
}
