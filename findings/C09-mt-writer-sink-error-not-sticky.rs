use std::{
    io::{self, Read, Write},
    num::NonZeroU64,
    sync::{
        atomic::{AtomicUsize, Ordering},
        mpsc, Arc, Mutex,
    },
    thread,
    time::Duration,
};

use lzma_rust2::{LZIPOptions, LZIPReader, LZIPWriterMT, LZMA2Options, LZMA2Reader, LZMA2WriterMT};

const UNIT: usize = 64 * 1024;

#[derive(Clone)]
struct FlakySink {
    data: Arc<Mutex<Vec<u8>>>,
    calls: Arc<AtomicUsize>,
    fail_at: usize,
}

impl Write for FlakySink {
    fn write(&mut self, buf: &[u8]) -> io::Result<usize> {
        if self.calls.fetch_add(1, Ordering::SeqCst) == self.fail_at {
            return Err(io::Error::new(io::ErrorKind::TimedOut, "sink timed out"));
        }
        self.data.lock().unwrap().extend_from_slice(buf);
        Ok(buf.len())
    }
    fn flush(&mut self) -> io::Result<()> {
        Ok(())
    }
}

fn noise(len: usize) -> Vec<u8> {
    let mut state = 0x2545_F491_4F6C_DD1Du64;
    (0..len)
        .map(|_| {
            state ^= state << 13;
            state ^= state >> 7;
            state ^= state << 17;
            (state >> 32) as u8
        })
        .collect()
}

#[test]
fn lzma2_finish_after_sink_error() {
    let sink = FlakySink { data: Default::default(), calls: Default::default(), fail_at: 0 };
    let mut options = LZMA2Options::with_preset(6);
    options.lzma_options.dict_size = UNIT as u32;
    options.set_chunk_size(NonZeroU64::new(UNIT as u64));
    let data = noise(UNIT * 12);
    let mut w = LZMA2WriterMT::new(sink.clone(), options, 1).unwrap();
    let mut errors = 0;
    for unit in data.chunks(UNIT) {
        if let Err(e) = w.write_all(unit) {
            eprintln!("write_all error: {e}");
            errors += 1;
        }
    }
    let fin = w.finish();
    assert!(errors > 0, "the sink error was not reported by write");
    assert!(fin.is_err(), "finish() reported success although a compressed unit was lost after a sink error");
    let bytes = sink.data.lock().unwrap().clone();
    let mut out = Vec::new();
    let r = LZMA2Reader::new(bytes.as_slice(), UNIT as u32, None).read_to_end(&mut out);
    eprintln!("LZMA2 decode: {:?}, {} of {} bytes, is suffix from unit 1: {}", r, out.len(), data.len(), out == data[UNIT..]);
}

#[test]
fn lzip_finish_after_sink_error() {
    let sink = FlakySink { data: Default::default(), calls: Default::default(), fail_at: 0 };
    let mut options = LZIPOptions::with_preset(6);
    options.lzma_options.dict_size = UNIT as u32;
    options.set_member_size(NonZeroU64::new(UNIT as u64));
    let data = noise(UNIT * 12);
    let mut w = LZIPWriterMT::new(sink.clone(), options, 1).unwrap();
    let mut errors = 0;
    for unit in data.chunks(UNIT) {
        if let Err(e) = w.write_all(unit) {
            eprintln!("write_all error: {e}");
            errors += 1;
        }
    }
    let fin = w.finish();
    assert!(errors > 0, "the sink error was not reported by write");
    assert!(fin.is_err(), "finish() reported success although a compressed member was lost after a sink error");
    let bytes = sink.data.lock().unwrap().clone();
    let mut out = Vec::new();
    let r = LZIPReader::new(bytes.as_slice()).unwrap().read_to_end(&mut out);
    eprintln!("LZIP decode: {:?}, {} of {} bytes, is suffix from unit 1: {}", r, out.len(), data.len(), out == data[UNIT..]);
}

