use std::io::{self, Read};
use std::sync::mpsc;
use std::time::Duration;
use lzma_rust2::filter::{bcj::BCJReader, bcj2::BCJ2Reader};

struct Faulty { data: Vec<u8>, pos: usize, chunk: usize, call: usize, fail_at: usize }
impl Read for Faulty {
    fn read(&mut self, buf: &mut [u8]) -> io::Result<usize> {
        let c = self.call; self.call += 1;
        if c == self.fail_at { return Err(io::Error::new(io::ErrorKind::Interrupted, "interrupted")); }
        let n = self.chunk.min(buf.len()).min(self.data.len() - self.pos);
        buf[..n].copy_from_slice(&self.data[self.pos..self.pos + n]);
        self.pos += n;
        Ok(n)
    }
}
fn plain(n: usize) -> Vec<u8> { (0..n).map(|i| (i % 200) as u8 + 1).map(|b| if b == 0xE8 || b == 0xE9 || b == 0x0F { 1 } else { b }).collect() }

#[test]
fn bcj_reader_survives_interrupted() {
    for k in 0..6 {
        let (tx, rx) = mpsc::channel();
        std::thread::spawn(move || {
            let data = plain(20_000);
            let mut out = Vec::new();
            let r = BCJReader::new_x86(Faulty { data: data.clone(), pos: 0, chunk: 1000, call: 0, fail_at: k }, 0).read_to_end(&mut out);
            let _ = tx.send((r.is_ok(), out == data));
        });
        match rx.recv_timeout(Duration::from_secs(10)) {
            Ok((ok, same)) => assert!(ok && same, "k={}: ok={} same={}", k, ok, same),
            Err(_) => panic!("k={}: read_to_end did not return", k),
        }
    }
}

#[test]
fn bcj2_reader_survives_interrupted() {
    for k in 0..6 {
        let main = plain(50_000);
        let mk = |d: Vec<u8>, fail_at: usize| Faulty { data: d, pos: 0, chunk: 1000, call: 0, fail_at };
        let inputs = vec![mk(main.clone(), k), mk(vec![], usize::MAX), mk(vec![], usize::MAX), mk(vec![0; 5], usize::MAX)];
        let mut out = Vec::new();
        let r = BCJ2Reader::new(inputs, 50_000).read_to_end(&mut out);
        assert!(r.is_ok() && out == main, "k={}: {:?} len {}", k, r, out.len());
    }
}
