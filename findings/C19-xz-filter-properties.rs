use std::io::{Read, Write};
use lzma_rust2::{XZOptions, XZReader, XZWriter};

fn roundtrip_or_err(filter_id: u64, property: u32) -> Result<(), String> {
    let r = std::panic::catch_unwind(move || {
        let mut o = XZOptions::with_preset(1);
        o.prepend_pre_filter(filter_id.try_into().unwrap(), property);
        let data: Vec<u8> = (0..3000u32).map(|i| (i * 13 % 251) as u8).collect();
        let mut w = match XZWriter::new(Vec::new(), o) { Ok(w) => w, Err(_) => return Ok(()) };
        if w.write_all(&data).is_err() { return Ok(()); }
        let enc = match w.finish() { Ok(e) => e, Err(_) => return Ok(()) };
        let mut out = Vec::new();
        let res = XZReader::new(std::io::Cursor::new(enc), false).read_to_end(&mut out);
        match res {
            Ok(_) if out == data => Ok(()),
            Ok(_) => Err("decoded to different data".to_string()),
            Err(e) => Err(format!("writer succeeded, reader failed: {}", e)),
        }
    });
    match r { Ok(x) => x, Err(_) => Err("panic".to_string()) }
}

#[test]
fn filter_properties_are_validated() {
    // XZ filter ids: 3 delta, 5 PowerPC, 6 IA-64, 7 ARM
    for (name, id, prop) in [("delta 0", 3u64, 0u32), ("delta 257", 3, 257), ("arm offset 2", 7, 2), ("ppc offset 6", 5, 6),
                             ("ia64 offset 8", 6, 8), ("delta 256", 3, 256), ("arm offset 8", 7, 8)] {
        if let Err(e) = roundtrip_or_err(id, prop) { panic!("{}: {}", name, e); }
    }
}
