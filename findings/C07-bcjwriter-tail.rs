// Demonstration of known finding C07 / TAIL-FORWARD (drop into tests/ of the crate; fails on the current tree).
use std::io::{Cursor, Read, Write};
use lzma_rust2::filter::bcj::{BCJReader, BCJWriter};

#[test]
fn arm_split_writes_roundtrip() {
    let mut data = Vec::new();
    for i in 0..64u32 {
        data.extend_from_slice(&[(i * 7) as u8, 0x10, 0x00, 0xEB]); // ARM BL
    }
    let mut whole = Vec::new();
    {
        let mut w = BCJWriter::new_arm(Cursor::new(&mut whole), 0);
        w.write_all(&data).unwrap();
    }
    let mut split = Vec::new();
    {
        let mut w = BCJWriter::new_arm(Cursor::new(&mut split), 0);
        for c in data.chunks(6) {
            w.write_all(c).unwrap();
        }
    }
    let mut dec = Vec::new();
    BCJReader::new_arm(Cursor::new(&split), 0).read_to_end(&mut dec).unwrap();
    assert_eq!(whole, split, "output depends on write partition");
    assert_eq!(dec, data, "round trip");
}
