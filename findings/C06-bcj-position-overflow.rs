use std::io::Read;
use lzma_rust2::filter::bcj::BCJReader;

fn run<R: Read>(mut r: R) -> bool {
    let mut out = Vec::new();
    std::panic::catch_unwind(std::panic::AssertUnwindSafe(|| { let _ = r.read_to_end(&mut out); })).is_ok()
}

#[test]
fn large_start_offsets_do_not_panic() {
    // one branch opcode for each filter in 64 bytes of input
    let mut x86 = vec![0u8; 64]; x86[8] = 0xE8; x86[9] = 0x10;
    let mut arm = vec![0u8; 64]; arm[11] = 0xEB; arm[8] = 0x10;
    let mut ppc = vec![0u8; 64]; ppc[8] = 0x48; ppc[11] = 0x01;
    let mut sparc = vec![0u8; 64]; sparc[8] = 0x40; sparc[11] = 0x10;
    let mut thumb = vec![0u8; 64]; thumb[9] = 0xF0; thumb[11] = 0xF8; thumb[8] = 0x10;
    for off in [0x7FFF_FFF0usize, 0x8000_0000, 0xFFFF_FFF0] {
        assert!(run(BCJReader::new_x86(&x86[..], off)), "x86 {:#x}", off);
        assert!(run(BCJReader::new_arm(&arm[..], off)), "arm {:#x}", off);
        assert!(run(BCJReader::new_ppc(&ppc[..], off)), "ppc {:#x}", off);
        assert!(run(BCJReader::new_sparc(&sparc[..], off)), "sparc {:#x}", off);
        assert!(run(BCJReader::new_arm_thumb(&thumb[..], off)), "arm_thumb {:#x}", off);
    }
}
