// C05 (also C06, C09, C10 through LZIPReaderMT): the stream range decoder mapped every error of its byte
// source, including end of input, to the byte 0 (`Err(_) => 0` in `impl<T: Read> RangeReader for T`).
//  * a .lzma stream with a declared size that is cut short decoded "successfully" to wrong bytes,
//  * a real I/O error (TimedOut) in the middle of the stream was swallowed the same way,
//  * a .lz member that is cut short produced output without bound (the decoder was fed zeros forever),
//    which in LZIPReaderMT meant a worker that never terminates and buffers without limit.
// Put into tests/, run `cargo test --test C05-range-decoder-swallows-source-errors`: all three tests fail
// before the fix ("fix: stream range decoder must report errors of its source"), pass after it.
use std::io::{self, Read, Write};

use lzma_rust2::*;

fn data(n: usize) -> Vec<u8> {
    let mut x = 0x2545F491u32;
    (0..n)
        .map(|i| {
            x ^= x << 13;
            x ^= x >> 17;
            x ^= x << 5;
            if i % 3 == 0 { (x >> 24) as u8 } else { (i % 7) as u8 }
        })
        .collect()
}

fn lzma_alone(d: &[u8]) -> Vec<u8> {
    let o = LZMAOptions::with_preset(1);
    let mut w = LZMAWriter::new_use_header(Vec::new(), &o, Some(d.len() as u64)).unwrap();
    w.write_all(d).unwrap();
    w.finish().unwrap()
}

#[test]
fn truncated_lzma_with_declared_size_is_an_error() {
    let d = data(6000);
    let c = lzma_alone(&d);
    let mut accepted = 0;
    for cut in 18..c.len() {
        let mut out = Vec::new();
        let r = LZMAReader::new_mem_limit(&c[..cut], u32::MAX, None)
            .and_then(|mut r| r.read_to_end(&mut out));
        if r.is_ok() {
            accepted += 1;
        }
    }
    assert_eq!(accepted, 0, "{accepted} of {} truncations decoded with Ok (and wrong bytes)", c.len() - 18);
}

struct FailAt<'a> {
    data: &'a [u8],
    pos: usize,
    fail_at: usize,
}

impl<'a> Read for FailAt<'a> {
    fn read(&mut self, buf: &mut [u8]) -> io::Result<usize> {
        if self.pos >= self.fail_at {
            return Err(io::Error::new(io::ErrorKind::TimedOut, "source failed"));
        }
        let n = buf.len().min(self.fail_at - self.pos).min(self.data.len() - self.pos);
        buf[..n].copy_from_slice(&self.data[self.pos..self.pos + n]);
        self.pos += n;
        Ok(n)
    }
}

#[test]
fn io_error_inside_the_lzma_stream_reaches_the_caller() {
    let d = data(6000);
    let c = lzma_alone(&d);
    for fail_at in [100usize, c.len() / 2, c.len() - 40] {
        let mut out = Vec::new();
        let r = LZMAReader::new_mem_limit(FailAt { data: &c, pos: 0, fail_at }, u32::MAX, None)
            .and_then(|mut r| r.read_to_end(&mut out));
        match r {
            Err(e) => assert_eq!(e.kind(), io::ErrorKind::TimedOut, "fail_at {fail_at}"),
            Ok(_) => panic!("source error at byte {fail_at} was swallowed: Ok with {} bytes", out.len()),
        }
    }
}

#[test]
fn truncated_lzip_member_terminates_with_an_error() {
    let d = data(6000);
    let mut w = LZIPWriter::new(Vec::new(), LZIPOptions::with_preset(1));
    w.write_all(&d).unwrap();
    let c = w.finish().unwrap();
    for cut in 7..c.len() - 1 {
        let mut r = LZIPReader::new(&c[..cut]).unwrap();
        let mut buf = vec![0u8; 1 << 16];
        let mut total = 0usize;
        let res = loop {
            match r.read(&mut buf) {
                Ok(0) => break Ok(()),
                Ok(n) => {
                    total += n;
                    if total > 50 * d.len() {
                        panic!("member cut at {cut} of {}: still producing output after {total} bytes", c.len());
                    }
                }
                Err(e) => break Err(e),
            }
        };
        assert!(res.is_err(), "member cut at {cut} decoded with Ok");
    }
}
