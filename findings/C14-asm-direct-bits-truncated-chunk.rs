use std::io::{Read, Write};
use lzma_rust2::{LZMA2Options, LZMA2Reader, LZMA2Writer};

fn fnv(d: &[u8]) -> u64 { let mut h = 0xcbf29ce484222325u64; for b in d { h ^= *b as u64; h = h.wrapping_mul(0x100000001b3); } h }

#[test]
fn truncated_chunks() {
    // incompressible-ish data so that many direct bits (large distances) occur
    let mut data = Vec::new();
    let mut x = 1u32;
    for i in 0..200_000u32 { x = x.wrapping_mul(1664525).wrapping_add(1013904223); data.push(if i % 7 < 3 { (x >> 24) as u8 } else { (i % 251) as u8 }); }
    let mut o = LZMA2Options::default();
    o.lzma_options.dict_size = 1 << 20;
    let mut w = LZMA2Writer::new(Vec::new(), o);
    w.write_all(&data).unwrap();
    let enc = w.finish().unwrap();
    // first chunk: control, usize(2), csize(2), [props]
    assert!(enc[0] >= 0x80);
    let hdr = if enc[0] >= 0xC0 { 6 } else { 5 };
    let csize = ((enc[3] as usize) << 8 | enc[4] as usize) + 1;
    let mut total = 0u64;
    for cut in 1..200usize {
        if cut >= csize { break; }
        let mut e = enc.clone();
        let n = csize - cut;
        e[3] = ((n - 1) >> 8) as u8; e[4] = ((n - 1) & 0xFF) as u8;
        // remove the cut bytes so that the next chunk header follows directly
        e.drain(hdr + n..hdr + csize);
        let mut out = Vec::new();
        let r = LZMA2Reader::new(&e[..], 1 << 20, None).read_to_end(&mut out);
        let line = format!("cut={} len={} fnv={:016x} res={}", cut, out.len(), fnv(&out), match r { Ok(_) => "ok".to_string(), Err(e) => format!("{:?}", e.kind()) });
        println!("{}", line);
        total = total.wrapping_mul(31).wrapping_add(fnv(line.as_bytes()));
    }
    println!("TOTAL {:016x}", total);
}
