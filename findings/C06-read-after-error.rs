use std::io::{Read, Write};
use lzma_rust2::{LZIPOptions, LZIPReader, LZIPWriter, LZMAOptions, LZMAReader, LZMAWriter};

fn no_panic<F: FnOnce() -> (bool, bool) + std::panic::UnwindSafe>(what: &str, f: F) {
    match std::panic::catch_unwind(f) {
        Ok((first_err, second_err)) => assert!(first_err && second_err, "{}: first read err={}, second read err={}", what, first_err, second_err),
        Err(_) => panic!("{}: a read after an error panicked", what),
    }
}

#[test]
fn lzma_reader_read_after_error() {
    // random bytes after the leading zero: decoding fails quickly ("dist overflow")
    for seed in 1..40u32 {
        let mut x = seed.wrapping_mul(2654435761);
        let mut enc = vec![0u8];
        for _ in 0..63 { x = x.wrapping_mul(1103515245).wrapping_add(12345); enc.push((x >> 16) as u8); }
        no_panic("LZMAReader", move || {
            let mut r = LZMAReader::new(&enc[..], u64::MAX, 3, 0, 2, 4096, None).unwrap();
            let mut out = vec![0u8; 256];
            let mut first = false;
            for _ in 0..64 { match r.read(&mut out) { Err(_) => { first = true; break; } Ok(0) => break, Ok(_) => {} } }
            if !first { return (true, true); }
            let mut later = true;
            for _ in 0..6 { later &= r.read(&mut out).is_err(); }
            (first, later)
        });
    }
}

#[test]
fn lzip_reader_read_after_error() {
    let mut w = LZIPWriter::new(Vec::new(), LZIPOptions::with_preset(1));
    w.write_all(&vec![3u8; 3000]).unwrap();
    let good = w.finish().unwrap();
    // (a) unsupported version byte, (b) file cut inside the trailer
    let mut bad_version = good.clone(); bad_version[4] = 9;
    let cut = good[..good.len() - 7].to_vec();
    for (what, file) in [("version", bad_version), ("truncated trailer", cut)] {
        no_panic(what, move || {
            let mut r = LZIPReader::new(&file[..]).unwrap();
            let mut out = vec![0u8; 1 << 16];
            let mut first = false;
            for _ in 0..8 { match r.read(&mut out) { Err(_) => { first = true; break; } Ok(0) => break, Ok(_) => {} } }
            let second = r.read(&mut out).is_err();
            (first, second)
        });
    }
}
