use std::io::{Cursor, Read, Write};
use lzma_rust2::{LZIPOptions, LZIPReaderMT, LZIPWriter};

fn member(data: &[u8]) -> Vec<u8> {
    let mut w = LZIPWriter::new(Vec::new(), LZIPOptions::with_preset(1));
    w.write_all(data).unwrap();
    w.finish().unwrap()
}

#[test]
fn remnant_of_a_deleted_member_is_an_error() {
    let a = member(&vec![7u8; 500]);
    let b_data: Vec<u8> = (0..800u32).map(|i| (i * 31 % 251) as u8).collect();
    let b = member(&b_data);
    for k in [1usize, 4, 6, 10, 19] {
        let mut file = a[..k].to_vec();
        file.extend_from_slice(&b);
        let mut out = Vec::new();
        let r = LZIPReaderMT::new(Cursor::new(file), 2).and_then(|mut r| r.read_to_end(&mut out));
        assert!(r.is_err(), "k={}: accepted, returned {} bytes", k, out.len());
    }
}
