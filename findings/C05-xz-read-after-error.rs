// C05 (and C06): XZReader kept no record of a failed read. When the source returned a transient error
// while the reader was between the end of a block's data and its checksum (block padding), the reader
// had already swapped `self.reader` to the raw source but still had a checksum calculator, so the next
// `read` took the "inside a block" branch and returned raw container bytes (padding, checksum, index,
// footer) to the caller as decoded data: Ok(33) after 10 001 correct bytes.
// Put into tests/, run `cargo test --test C05-xz-read-after-error`: fails before the fix
// ("fix: XZReader must not be run again after it returned an error"), passes after it.
use std::io::{self, Read, Write};

use lzma_rust2::*;

struct FailAt<'a> {
    data: &'a [u8],
    pos: usize,
    fail_at: usize,
    failed: bool,
}

impl<'a> Read for FailAt<'a> {
    fn read(&mut self, buf: &mut [u8]) -> io::Result<usize> {
        if !self.failed && self.pos >= self.fail_at {
            self.failed = true;
            return Err(io::Error::new(io::ErrorKind::TimedOut, "transient"));
        }
        let mut n = buf.len().min(self.data.len() - self.pos);
        if !self.failed {
            n = n.min(self.fail_at - self.pos);
        }
        buf[..n].copy_from_slice(&self.data[self.pos..self.pos + n]);
        self.pos += n;
        Ok(n)
    }
}

#[test]
fn xz_reader_never_returns_container_bytes_as_data() {
    let d: Vec<u8> = (0..10001usize).map(|i| ((i * 7 + i / 13) % 251) as u8).collect();
    let mut w = XZWriter::new(Vec::new(), XZOptions::with_preset(0)).unwrap();
    w.write_all(&d).unwrap();
    let c = w.finish().unwrap();

    for fail_at in 12..c.len() {
        let mut r = XZReader::new(
            FailAt {
                data: &c,
                pos: 0,
                fail_at,
                failed: false,
            },
            false,
        );
        let mut out = Vec::new();
        let mut buf = [0u8; 4096];
        let mut errs = 0;
        loop {
            match r.read(&mut buf) {
                Ok(0) => break,
                Ok(n) => out.extend_from_slice(&buf[..n]),
                Err(_) => {
                    errs += 1;
                    if errs > 3 {
                        break;
                    }
                }
            }
        }
        assert!(errs >= 1);
        assert!(
            out.len() <= d.len() && out[..] == d[..out.len()],
            "source error at offset {fail_at} of {}: reader delivered {} bytes, original has {}",
            c.len(),
            out.len(),
            d.len()
        );
    }
}
