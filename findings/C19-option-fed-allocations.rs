use lzma_rust2::{LZMA2Options, LZMA2Writer, MFType};
#[test]
fn pb_out_of_range() {
    let mut o = LZMA2Options::default();
    o.lzma_options.pb = 40;
    let r = std::panic::catch_unwind(|| { let _ = LZMA2Writer::new(Vec::<u8>::new(), o); });
    assert!(r.is_ok(), "constructor panicked for pb=40");
}
#[test]
fn lc_lp_out_of_range() {
    let mut o = LZMA2Options::default();
    o.lzma_options.lc = 8; o.lzma_options.lp = 4;
    let r = std::panic::catch_unwind(|| { let _ = LZMA2Writer::new(Vec::<u8>::new(), o); });
    assert!(r.is_ok(), "constructor panicked for lc=8 lp=4");
}
#[test]
fn bt4_dict_2gib() {
    let mut o = LZMA2Options::default();
    o.lzma_options.dict_size = 0x8000_0000; o.lzma_options.mf = MFType::BT4;
    let r = std::panic::catch_unwind(|| { let _ = LZMA2Writer::new(Vec::<u8>::new(), o); });
    assert!(r.is_ok(), "constructor panicked for dict 2 GiB / BT4");
}
