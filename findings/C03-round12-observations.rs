//! Reproducers for property C03 violations that exist in the PRISTINE tree (no seeded change).
//! Every test states the property and therefore FAILS on the pristine tree.
//! Copy to tests/pristine_repro.rs and run `cargo test --offline --test pristine_repro`.

use std::{
    io::{Read, Write},
    process::{Command, Stdio},
};

use lzma_rust2::{LZMA2Options, LZMA2Reader, LZMA2Writer, LZMAOptions, LZMAWriter, XZOptions, XZReader, XZWriter};

fn xz(args: &[&str], input: &[u8]) -> Result<Vec<u8>, String> {
    let mut child = Command::new("xz")
        .args(args)
        .stdin(Stdio::piped())
        .stdout(Stdio::piped())
        .stderr(Stdio::piped())
        .spawn()
        .expect("xz must be on PATH");
    let mut stdin = child.stdin.take().unwrap();
    let input = input.to_vec();
    let feeder = std::thread::spawn(move || {
        let _ = stdin.write_all(&input);
    });
    let output = child.wait_with_output().unwrap();
    feeder.join().unwrap();
    if output.status.success() {
        Ok(output.stdout)
    } else {
        Err(String::from_utf8_lossy(&output.stderr).into_owned())
    }
}

fn sample(len: usize) -> Vec<u8> {
    let words = ["alpha", "beta", "gamma", "delta", "epsilon", "zeta", "eta", "theta"];
    let mut state = 0x2545F491u32;
    let mut out = Vec::with_capacity(len + 8);
    while out.len() < len {
        state ^= state << 13;
        state ^= state >> 17;
        state ^= state << 5;
        out.extend_from_slice(words[(state >> 7) as usize % words.len()].as_bytes());
        out.push(b' ');
    }
    out.truncate(len);
    out
}

/// 1. `LZMAWriter` copies `dict_size` verbatim into the .lzma header.  liblzma's encoder always
///    rounds the header value up to 2^n or 2^n + 2^(n-1), and the xz tool (also with
///    `--format=lzma`) as well as `lzma_auto_decoder` (python: FORMAT_AUTO) refuse any other value
///    with "File format not recognized".
#[test]
fn lzma_alone_with_a_dictionary_size_that_is_not_2n_or_3_2n() {
    let data = sample(50_000);
    let mut options = LZMAOptions::with_preset(3);
    options.dict_size = 100_000; // in range (4 KiB ..= 4 GiB - 16)
    let mut writer = LZMAWriter::new_use_header(Vec::new(), &options, None).unwrap();
    writer.write_all(&data).unwrap();
    let compressed = writer.finish().unwrap();

    let decoded = xz(&["-dc", "--format=lzma"], &compressed)
        .unwrap_or_else(|err| panic!("xz --format=lzma rejected the crate's .lzma file: {err}"));
    assert!(decoded == data);
}

/// 2. `BCJWriter::write` filters every `write` call on its own: the (up to 4) trailing bytes the
///    filter could not decide yet are passed on unfiltered and the filter position only advances by
///    the filtered part.  As soon as the input arrives in more than one `write` call, the stream no
///    longer decodes to the input - neither with liblzma nor with this crate's own reader.
///    (The pre-filter is reachable from the public API through `TryFrom<u64> for FilterType`.)
#[test]
fn xz_with_x86_bcj_filter_written_in_several_calls() {
    let data = std::fs::read("tests/data/wget-x86").unwrap();
    let mut options = XZOptions::with_preset(1);
    options.prepend_pre_filter(4u64.try_into().ok().unwrap(), 0); // 0x04 = x86 BCJ
    let mut writer = XZWriter::new(Vec::new(), options).unwrap();
    for chunk in data.chunks(8191) {
        writer.write_all(chunk).unwrap();
    }
    let compressed = writer.finish().unwrap();

    let reference = xz(&["-dc"], &compressed);
    let mut own = Vec::new();
    let own_result = XZReader::new(compressed.as_slice(), false).read_to_end(&mut own);

    assert!(own_result.is_ok(), "own reader: {own_result:?}");
    assert!(own == data);
    let reference = reference.unwrap_or_else(|err| panic!("xz rejected the stream: {err}"));
    assert!(reference == data);
}

/// 3. `LZMA2Writer` accepts lc + lp > 4 (each value on its own is in range) and writes a stream
///    with a properties byte that LZMA2 forbids: liblzma and the crate's own reader reject it.
#[test]
fn raw_lzma2_with_lc_plus_lp_above_four() {
    let data = sample(50_000);
    let mut options = LZMA2Options::with_preset(2);
    options.lzma_options.lc = 4;
    options.lzma_options.lp = 1;
    let dict_size = options.lzma_options.dict_size;
    let mut writer = LZMA2Writer::new(Vec::new(), options);
    writer.write_all(&data).unwrap();
    let compressed = writer.finish().unwrap();

    let mut decoded = Vec::new();
    let result = LZMA2Reader::new(compressed.as_slice(), dict_size, None).read_to_end(&mut decoded);
    assert!(result.is_ok(), "own reader: {result:?}");
    assert!(decoded == data);
}
