use std::io::Write;
use std::num::NonZeroU64;
use std::sync::mpsc;
use std::time::Duration;
use lzma_rust2::{LZMA2Options, LZMA2WriterMT};

#[test]
fn a_panicking_worker_does_not_hang_finish() {
    let (tx, rx) = mpsc::channel();
    std::thread::spawn(move || {
        let mut options = LZMA2Options::with_preset(6);
        options.lzma_options.dict_size = 1 << 16;
        // out-of-range literal/position bits make the worker's encoder panic (known, separate defect)
        options.lzma_options.lc = 8;
        options.lzma_options.lp = 4;
        options.lzma_options.pb = 7;
        options.set_chunk_size(NonZeroU64::new(1 << 16));
        let mut w = LZMA2WriterMT::new(Vec::new(), options, 2).unwrap();
        let data: Vec<u8> = (0..(3u32 << 16)).map(|i| (i.wrapping_mul(2654435761) >> 24) as u8).collect();
        let r1 = w.write_all(&data).is_ok();
        let r2 = w.finish().is_ok();
        let _ = tx.send((r1, r2));
    });
    match rx.recv_timeout(Duration::from_secs(20)) {
        Ok((_, finish_ok)) => assert!(!finish_ok, "finish() reported success although the workers panicked"),
        Err(_) => panic!("finish() did not return within 20 s after the workers panicked"),
    }
}
