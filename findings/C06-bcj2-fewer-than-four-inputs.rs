//! Pristine observation: BCJ2Reader::new accepts any number of input streams, but `read` indexes
//! `inputs[state]` with state 0..=3. With fewer than four streams the first read panics
//! (src/filter/bcj2.rs, `self.inputs[self.decoder.state].read(..)`).
use std::io::Read;

use lzma_rust2::filter::bcj2::BCJ2Reader;

#[test]
fn bcj2_reader_with_fewer_than_four_inputs_must_not_panic() {
    for n in 0..4usize {
        let r = std::panic::catch_unwind(move || {
            let inputs: Vec<&[u8]> = (0..n).map(|_| &[0u8, 0, 0, 0, 0, 0x90, 0x90][..]).collect();
            let mut rd = BCJ2Reader::new(inputs, 16);
            let mut buf = [0u8; 16];
            rd.read(&mut buf).map_err(|e| e.to_string())
        });
        assert!(r.is_ok(), "BCJ2Reader panicked when given {n} input stream(s)");
    }
}
