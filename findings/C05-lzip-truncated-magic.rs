// C05: a multi-member LZIP stream cut one, two or three bytes into the magic of a following member
// ("L", "LZ", "LZI") was decoded with Ok and only the earlier members' data: LZIPHeader::parse_next
// classified every short read of the magic as "no magic" = trailing data. The reference lzip reports
// "truncated header in multimember file" for exactly this case.
// Put into tests/, run `cargo test --test C05-lzip-truncated-magic`: fails before the fix
// ("fix: LZIP data that ends inside a member magic is truncated, not trailing data"), passes after it.
use std::io::{Read, Write};

use lzma_rust2::*;

#[test]
fn stream_cut_inside_the_next_magic_is_an_error() {
    let d: Vec<u8> = (0..70000usize).map(|i| ((i * 7 + i / 13) % 251) as u8).collect();
    let mut o = LZIPOptions::with_preset(0);
    o.lzma_options.dict_size = 4096;
    o.member_size = std::num::NonZeroU64::new(40000);
    let mut w = LZIPWriter::new(Vec::new(), o);
    w.write_all(&d).unwrap();
    let c = w.finish().unwrap();
    let pos = (1..c.len() - 4).find(|&i| &c[i..i + 4] == b"LZIP").unwrap();

    // Cut at the member boundary: a valid (shorter) file.
    let mut out = Vec::new();
    LZIPReader::new(&c[..pos]).unwrap().read_to_end(&mut out).unwrap();
    assert_eq!(out, &d[..40000]);

    for k in 1..=6 {
        let mut out = Vec::new();
        let r = LZIPReader::new(&c[..pos + k]).unwrap().read_to_end(&mut out);
        assert!(r.is_err(), "stream cut {k} bytes into the second member was accepted with {} of {} bytes", out.len(), d.len());
    }

    // Trailing data that is not a prefix of the magic is still accepted.
    let mut t = c[..pos].to_vec();
    t.extend_from_slice(b"LX");
    let mut out = Vec::new();
    LZIPReader::new(&t[..]).unwrap().read_to_end(&mut out).unwrap();
    assert_eq!(out, &d[..40000]);
}
