use std::io::{Read, Write};
use lzma_rust2::{LZMAOptions, LZMAReader, LZMAWriter, XZOptions, XZReader, XZWriter};
#[test]
fn xz_writer_ignores_a_preset_dictionary() {
    let mut preset = Vec::new();
    let mut x = 5u32;
    for _ in 0..20000 { x = x.wrapping_mul(1103515245).wrapping_add(12345); preset.push((x >> 16) as u8); }
    let data = preset[..3000].to_vec();
    let mut o = XZOptions::with_preset(1);
    o.lzma_options.preset_dict = Some(preset.into());
    let mut w = XZWriter::new(Vec::new(), o).unwrap();
    w.write_all(&data).unwrap();
    let enc = w.finish().unwrap();
    let mut out = Vec::new();
    XZReader::new(&enc[..], false).read_to_end(&mut out).expect("the .xz file must be decodable without a preset dictionary");
    assert_eq!(out, data);
}
#[test]
fn lzma_header_without_size_needs_an_end_marker() {
    let o = LZMAOptions::with_preset(1);
    let data = vec![7u8; 5000];
    match LZMAWriter::new(Vec::new(), &o, true, false, None) {
        Err(_) => {}
        Ok(mut w) => {
            w.write_all(&data).unwrap();
            let enc = w.finish().unwrap();
            let mut out = Vec::new();
            let mut r = LZMAReader::new_mem_limit(&enc[..], u32::MAX, None).unwrap();
            let res = r.read_to_end(&mut out);
            assert!(res.is_ok() && out == data, "writer succeeded, reader: {:?} ({} bytes)", res, out.len());
        }
    }
}
