use std::io::{Read, Write};
use std::num::NonZeroU64;
use lzma_rust2::{LZIPOptions, LZIPReader, LZIPWriter, LZIPWriterMT};

fn data_and_preset() -> (Vec<u8>, Vec<u8>) {
    let mut preset = Vec::new();
    let mut x = 5u32;
    for _ in 0..20000 { x = x.wrapping_mul(1103515245).wrapping_add(12345); preset.push((x >> 16) as u8); }
    (preset[..3000].to_vec(), preset)
}

#[test]
fn lzip_writer_ignores_a_preset_dictionary() {
    let (data, preset) = data_and_preset();
    let mut o = LZIPOptions::with_preset(1);
    o.lzma_options.preset_dict = Some(preset.into());
    let mut w = LZIPWriter::new(Vec::new(), o);
    w.write_all(&data).unwrap();
    let enc = w.finish().unwrap();
    let mut out = Vec::new();
    LZIPReader::new(&enc[..]).unwrap().read_to_end(&mut out).expect("the .lz file must be decodable without a preset dictionary");
    assert_eq!(out, data);
}

#[test]
fn lzip_writer_mt_ignores_a_preset_dictionary() {
    let (data, preset) = data_and_preset();
    let mut o = LZIPOptions::with_preset(1);
    o.lzma_options.preset_dict = Some(preset.into());
    o.set_member_size(NonZeroU64::new(1 << 20));
    let mut w = LZIPWriterMT::new(Vec::new(), o, 2).unwrap();
    w.write_all(&data).unwrap();
    let enc = w.finish().unwrap();
    let mut out = Vec::new();
    LZIPReader::new(&enc[..]).unwrap().read_to_end(&mut out).expect("the .lz file must be decodable without a preset dictionary");
    assert_eq!(out, data);
}
