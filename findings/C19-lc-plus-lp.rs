use std::io::{Read, Write};
use lzma_rust2::{LZMA2Options, LZMA2Reader, LZMA2Writer};
#[test]
fn lc_plus_lp_above_four() {
    let mut o = LZMA2Options::with_preset(1);
    o.lzma_options.lc = 3; o.lzma_options.lp = 2;
    let dict = o.lzma_options.dict_size;
    let data: Vec<u8> = (0..5000u32).map(|i| (i % 97) as u8).collect();
    let mut w = LZMA2Writer::new(Vec::new(), o);
    w.write_all(&data).unwrap();
    let enc = w.finish().unwrap();
    let mut out = Vec::new();
    let r = LZMA2Reader::new(&enc[..], dict, None).read_to_end(&mut out);
    assert!(r.is_ok() && out == data, "writer succeeded, reader: {:?}", r);
}
