// C06: XZReader::try_start_next_stream counted the zero bytes of stream padding in an i32 (`let mut padding_bytes = 0;`
// with nothing to constrain the type): a valid stream followed by 2^31 + 8 zero bytes - legal padding, a multiple of
// four - panicked with "attempt to add with overflow" in builds with overflow checks (the default test/dev profile).
// Put into tests/, run `cargo test --test C06-xz-stream-padding-counter -- --ignored` (about 1-2 minutes in a debug
// build): panics before the fix ("fix: count XZ stream padding in 64 bits"), passes after it.
use std::io::{Cursor, Read, Write};

use lzma_rust2::*;

#[test]
#[ignore = "reads 2 GiB of zeros"]
fn two_gib_of_stream_padding() {
    let mut w = XZWriter::new(Vec::new(), XZOptions::with_preset(0)).unwrap();
    w.write_all(b"x").unwrap();
    let stream = w.finish().unwrap();
    let input = Cursor::new(stream).chain(std::io::repeat(0).take((1u64 << 31) + 8));
    let mut out = Vec::new();
    XZReader::new(input, true).read_to_end(&mut out).unwrap();
    assert_eq!(out, b"x");
}
