//! Pristine observation (adjacent to C16, see pristine_observations.md): a `.lzma` stream that has
//! BOTH a declared size AND an end marker. xz/liblzma accept such files and consume the marker;
//! `LZMAReader` stops when the declared size is reached and leaves the marker (and the range coder
//! flush) unread in the source.
//!
//! This test documents the behaviour: it FAILS on the pristine tree.

use std::io::{Cursor, Read, Write};

use lzma_rust2::{LZMAOptions, LZMAReader, LZMAWriter};

#[test]
fn declared_size_plus_end_marker_leaves_the_marker_unread() {
    let data = b"declared size plus end marker, declared size plus end marker".to_vec();
    let options = LZMAOptions::with_preset(6);

    // header = true, end marker = true, size known: the crate's own writer produces this.
    let mut writer =
        LZMAWriter::new(Vec::new(), &options, true, true, Some(data.len() as u64)).unwrap();
    writer.write_all(&data).unwrap();
    let stream = writer.finish().unwrap();

    let mut input = stream.clone();
    input.extend_from_slice(b"NEXT MEMBER");

    let mut reader = LZMAReader::new_mem_limit(Cursor::new(input), u32::MAX, None).unwrap();
    let mut out = Vec::new();
    reader.read_to_end(&mut out).unwrap();
    assert_eq!(out, data);

    let mut source = reader.into_inner();
    let mut rest = Vec::new();
    source.read_to_end(&mut rest).unwrap();
    // liblzma (python: LZMADecompressor(FORMAT_ALONE).unused_data) leaves exactly b"NEXT MEMBER".
    assert_eq!(
        rest,
        b"NEXT MEMBER",
        "{} bytes of the .lzma stream were left unread",
        rest.len() - b"NEXT MEMBER".len()
    );
}
