use std::alloc::{GlobalAlloc, Layout, System};
use std::io::Write;
use std::sync::atomic::{AtomicUsize, Ordering};
use lzma_rust2::{LZMA2Options, LZMA2Writer};
use std::num::NonZeroU64;

struct Counting;
static CUR: AtomicUsize = AtomicUsize::new(0);
static PEAK: AtomicUsize = AtomicUsize::new(0);
unsafe impl GlobalAlloc for Counting {
    unsafe fn alloc(&self, l: Layout) -> *mut u8 {
        let p = System.alloc(l);
        if !p.is_null() { let c = CUR.fetch_add(l.size(), Ordering::SeqCst) + l.size(); PEAK.fetch_max(c, Ordering::SeqCst); }
        p
    }
    unsafe fn dealloc(&self, p: *mut u8, l: Layout) { System.dealloc(p, l); CUR.fetch_sub(l.size(), Ordering::SeqCst); }
    unsafe fn alloc_zeroed(&self, l: Layout) -> *mut u8 {
        let p = System.alloc_zeroed(l);
        if !p.is_null() { let c = CUR.fetch_add(l.size(), Ordering::SeqCst) + l.size(); PEAK.fetch_max(c, Ordering::SeqCst); }
        p
    }
}
#[global_allocator]
static A: Counting = Counting;

#[test]
fn estimate_covers_independent_chunks() {
    let mut o = LZMA2Options::with_preset(1);
    o.lzma_options.dict_size = 1 << 20;
    o.set_chunk_size(NonZeroU64::new(1 << 20));
    let est = o.lzma_options.get_memory_usage() as usize * 1024;
    let mut x = 1u32;
    let data: Vec<u8> = (0..(3usize << 20)).map(|_| { x = x.wrapping_mul(1664525).wrapping_add(1013904223); (x >> 24) as u8 }).collect();
    let before = CUR.load(Ordering::SeqCst);
    PEAK.store(before, Ordering::SeqCst);
    let mut w = LZMA2Writer::new(Vec::new(), o);
    w.write_all(&data).unwrap();
    let out = w.finish().unwrap();
    let peak = PEAK.load(Ordering::SeqCst) - before - out.capacity();
    assert!(peak <= est, "estimate {} bytes, real peak {} bytes (without the output vector)", est, peak);
}

