#!/bin/bash
# Build the fact extractor (offline, nightly toolchain with rustc-dev). Idempotent.
set -euo pipefail
cd "$(dirname "$0")/engine/mirfacts"
CARGO_NET_OFFLINE=true cargo +nightly build --offline 2>&1 | tail -3
test -x target/debug/mirfacts
echo "setup ok"
